#!/bin/bash
# Offline setup: nothing to build; warm the numba cache used by the checks and self-test the oracles.
cd "$(dirname "$(readlink -f "$0")")" || exit 1
mkdir -p scratch/numba-cache evidence
export PYTHONHASHSEED=0 NUMBA_CACHE_DIR="$PWD/scratch/numba-cache"
/venv/bin/python -B -m mc.warm || exit 1
if ls tests/test_*.py >/dev/null 2>&1; then
  /venv/bin/python -B -m pytest -q -p no:cacheprovider tests -x -q 2>&1 | tail -3
  [ "${PIPESTATUS[0]}" = 0 ] || exit 1
fi
exit 0
