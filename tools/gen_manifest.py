#!/usr/bin/env python3
"""Writes /verif/MANIFEST.json from the table below (kept valid at all times)."""
import json, os, sys
VERIF = os.path.dirname(os.path.dirname(os.path.abspath(__file__)))
sys.path.insert(0, VERIF)
from tools.manifest_table import CHECKS, NOT_APPLICABLE  # noqa

checks = []
for pid in sorted(CHECKS):
    c = CHECKS[pid]
    checks.append({
        "property_id": pid,
        "quick_cmd": "./check %s --tier quick" % pid,
        "thorough_cmd": "./check %s --tier thorough" % pid,
        "evidence_file": "/verif/evidence/%s.json" % pid,
        "replay_cmd_template": "./check %s --replay {path}" % pid,
        "engine": c["engine"],
        "level_claimed": {"category": "model_checking", "text": c["text"],
                          "design_ref": "DESIGN.md section 3 (%s) and section 9" % pid},
        "level_note": c["note"],
        "technique": c["technique"],
    })
m = {
    "version": 1,
    "setup_cmd": "./setup.sh",
    "hooks": {
        "guard": "OPFYTHON_VERIF",
        "enable": "no in-repository hooks: every seam is intercepted from outside "
                  "(module-attribute monkeypatching in mc/seams.py); checks import opfython "
                  "from $VERIF_REPO (default /repo) in a fresh interpreter",
        "baseline_off_cmd": "cd /repo && /venv/bin/python -m pytest -ra -q -p no:cacheprovider --timeout=900 --continue-on-collection-errors",
        "source_commits": [],
        "add_only": True,
    },
    "engines": [
        {"name": "explorer-B", "path": "/verif/mc/props (c05, c07, c09, c12, c19)",
         "serves_properties": ["C05", "C07", "C09", "C12", "C19"],
         "kind_free_text": "explicit-state BFS over the real objects, reference model in lock-step"},
        {"name": "explorer-E", "path": "/verif/mc/enum.py + mc/props",
         "serves_properties": ["C01", "C02", "C03", "C04", "C06", "C08", "C10", "C11", "C12",
                               "C13", "C14", "C15", "C16", "C18", "C20"],
         "kind_free_text": "bounded-exhaustive enumeration of complete input alphabets, relational oracle"},
        {"name": "explorer-D", "path": "/verif/mc/explore.py",
         "serves_properties": ["C16", "C17", "C18"],
         "kind_free_text": "stateless choice exploration with prefix replay over intercepted nondeterminism"},
    ],
    "checks": checks,
    "not_applicable": [{"property_id": k, "reason": v} for k, v in sorted(NOT_APPLICABLE.items())
                       if k not in CHECKS],
    "notes": "All checks: ./check <id> --tier quick|thorough ; exit 0 held / 1 VIOLATION / 2 harness error. "
             "VERIF_SEED selects the numeric embedding of the same exhaustive space, never which cases run.",
}
with open(os.path.join(VERIF, "MANIFEST.json"), "w") as f:
    json.dump(m, f, indent=1)
    f.write("\n")
print("MANIFEST.json: %d checks, %d not_applicable" % (len(checks), len(m["not_applicable"])))
