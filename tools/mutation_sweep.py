#!/usr/bin/env python3
"""tools/mutation_sweep.py [--files a,b] [--limit N] [--resume] [--list]

Systematic single-token mutation of the library files the properties are anchored in
(comparison flips, arithmetic operator swaps, and/or, small integer constants +-1, min/max and
argmin/argmax swaps, dropped `not` / unary minus, `+=` <-> `-=`, a single assignment statement
replaced by `pass`, `break`/`continue` replaced by `pass`).  For every mutant, in one scratch
worktree of /repo under /var/tmp (removed at the end):

  1. the pinned test-suite is run with the mutant (-x); mutants it kills are of no interest,
  2. the quick checks mapped to the file are run one after the other with VERIF_REPO pointing at
     the worktree until one prints a VIOLATION line.

Results: /verif/mutants/sweep.jsonl (one line per mutant; --resume skips mutants already there) and
/verif/mutants/SWEEP.md (summary: killed by the suite / caught by a check / survived).
Survivors are either equivalent mutants or holes; they are listed with file:line and the edit.
VERIF_SNAP=<dir> runs the checks from a snapshot of /verif."""
import ast
import json
import os
import subprocess
import sys
import time

VERIF = os.path.dirname(os.path.dirname(os.path.abspath(__file__)))
CHECK_HOME = os.environ.get("VERIF_SNAP") or VERIF
PY = "/venv/bin/python"
WT = "/var/tmp/opf-sweep-%d" % os.getpid()
OUT = os.path.join(VERIF, "mutants", "sweep.jsonl")

FILES = {
    "opfython/core/heap.py": ["C05", "C01", "C13"],
    "opfython/core/subgraph.py": ["C01", "C17", "C18", "C12", "C13", "C10", "C19"],
    "opfython/core/opf.py": ["C19", "C10", "C06"],
    "opfython/models/supervised.py": ["C01", "C02", "C03", "C04", "C17", "C11", "C09", "C10"],
    "opfython/models/semi_supervised.py": ["C15", "C02", "C03", "C09"],
    "opfython/models/knn_supervised.py": ["C13", "C14", "C16", "C04", "C09", "C10"],
    "opfython/models/unsupervised.py": ["C13", "C14", "C16", "C09", "C10"],
    "opfython/subgraphs/knn.py": ["C12", "C13", "C10", "C14"],
    "opfython/math/general.py": ["C20", "C10", "C16", "C17"],
    "opfython/math/random.py": ["C17"],
    "opfython/utils/decorator.py": ["C06", "C07", "C08"],
    "opfython/stream/loader.py": ["C18"],
    "opfython/stream/parser.py": ["C18"],
    "opfython/stream/splitter.py": ["C18"],
    "opfython/utils/converter.py": ["C18"],
    "opfython/math/distance.py": ["C06", "C08", "C07"],
}

CMP = {ast.Lt: ["<=", ">"], ast.LtE: ["<"], ast.Gt: [">=", "<"], ast.GtE: [">"], ast.Eq: ["!="], ast.NotEq: ["=="]}
CMP_TXT = {ast.Lt: "<", ast.LtE: "<=", ast.Gt: ">", ast.GtE: ">=", ast.Eq: "==", ast.NotEq: "!="}
BIN = {ast.Add: ["-"], ast.Sub: ["+"], ast.Mult: ["/"], ast.Div: ["*", "//"], ast.FloorDiv: ["/"]}
BIN_TXT = {ast.Add: "+", ast.Sub: "-", ast.Mult: "*", ast.Div: "/", ast.FloorDiv: "//"}
NAMES = {"minimum": "maximum", "maximum": "minimum", "min": "max", "max": "min", "argmin": "argmax",
         "argmax": "argmin", "nansum": "sum", "fabs": "abs_removed", "floor": "ceil", "zeros": "ones",
         "BLACK": "GRAY", "WHITE": "BLACK", "GRAY": "WHITE", "NIL": "NIL_PLUS", "PROTOTYPE": "STANDARD",
         "RELEVANT": "IRRELEVANT", "IRRELEVANT": "RELEVANT", "FLOAT_MAX": "FLOAT_MAX_NEG"}


def between(src_lines, a_end, b_start):
    """Text between two positions (line, col) when on one line."""
    (l1, c1), (l2, c2) = a_end, b_start
    if l1 != l2:
        return None
    return src_lines[l1 - 1][c1:c2]


def mutants_of(path, src):
    lines = src.split("\n")
    tree = ast.parse(src)
    out = []          # (line, col_start, col_end, new_text, description)
    doc_nodes = set()
    for node in ast.walk(tree):
        if isinstance(node, (ast.FunctionDef, ast.ClassDef, ast.Module)):
            b = node.body
            if b and isinstance(b[0], ast.Expr) and isinstance(getattr(b[0], "value", None), ast.Constant) \
                    and isinstance(b[0].value.value, str):
                doc_nodes.add(id(b[0].value))

    plumbing = set()      # lines of property getters / setters (attribute plumbing and type validation)
    for node in ast.walk(tree):
        if isinstance(node, ast.FunctionDef):
            for d in node.decorator_list:
                txt = ast.unparse(d)
                if txt == "property" or txt.endswith(".setter"):
                    plumbing.update(range(node.lineno, node.end_lineno + 1))

    def in_logging(line):
        t = lines[line - 1].strip()
        return t.startswith("logger.") or t.startswith("raise ") or t.startswith("@") or line in plumbing

    for node in ast.walk(tree):
        if not hasattr(node, "lineno"):
            continue
        if in_logging(node.lineno):
            continue
        if isinstance(node, ast.Compare) and len(node.ops) == 1:
            op = type(node.ops[0])
            if op in CMP:
                a_end = (node.left.end_lineno, node.left.end_col_offset)
                b_start = (node.comparators[0].lineno, node.comparators[0].col_offset)
                txt = between(lines, a_end, b_start)
                if txt is not None and txt.strip() == CMP_TXT[op]:
                    s = a_end[1] + txt.index(CMP_TXT[op])
                    for new in CMP[op]:
                        out.append((a_end[0], s, s + len(CMP_TXT[op]), new, "%s -> %s" % (CMP_TXT[op], new)))
        elif isinstance(node, ast.BinOp) and type(node.op) in BIN:
            a_end = (node.left.end_lineno, node.left.end_col_offset)
            b_start = (node.right.lineno, node.right.col_offset)
            txt = between(lines, a_end, b_start)
            t = BIN_TXT[type(node.op)]
            if txt is not None and txt.strip(" ()") == t and txt.count(t) == 1:
                s = a_end[1] + txt.index(t)
                for new in BIN[type(node.op)]:
                    out.append((a_end[0], s, s + len(t), new, "%s -> %s" % (t, new)))
        elif isinstance(node, ast.AugAssign) and type(node.op) in (ast.Add, ast.Sub):
            a_end = (node.target.end_lineno, node.target.end_col_offset)
            b_start = (node.value.lineno, node.value.col_offset)
            txt = between(lines, a_end, b_start)
            t = "+=" if isinstance(node.op, ast.Add) else "-="
            if txt is not None and txt.strip() == t:
                s = a_end[1] + txt.index(t)
                new = "-=" if t == "+=" else "+="
                out.append((a_end[0], s, s + 2, new, "%s -> %s" % (t, new)))
        elif isinstance(node, ast.BoolOp) and len(node.values) == 2:
            a_end = (node.values[0].end_lineno, node.values[0].end_col_offset)
            b_start = (node.values[1].lineno, node.values[1].col_offset)
            txt = between(lines, a_end, b_start)
            t = "and" if isinstance(node.op, ast.And) else "or"
            if txt is not None and txt.strip(" ()") == t:
                s = a_end[1] + txt.index(t)
                new = "or" if t == "and" else "and"
                out.append((a_end[0], s, s + len(t), new, "%s -> %s" % (t, new)))
        elif isinstance(node, ast.UnaryOp) and isinstance(node.op, (ast.Not, ast.USub)) \
                and node.lineno == node.operand.lineno:
            t = lines[node.lineno - 1][node.col_offset:node.operand.col_offset]
            if t.strip() in ("not", "-"):
                out.append((node.lineno, node.col_offset, node.operand.col_offset, "",
                            "dropped `%s`" % t.strip()))
        elif isinstance(node, ast.Constant) and isinstance(node.value, int) and not isinstance(node.value, bool) \
                and id(node) not in doc_nodes and node.value in (0, 1, 2) and node.lineno == node.end_lineno:
            for new in ({0: [1], 1: [0, 2], 2: [1, 3]}[node.value]):
                out.append((node.lineno, node.col_offset, node.end_col_offset, str(new),
                            "constant %d -> %d" % (node.value, new)))
        elif isinstance(node, ast.Attribute) and node.attr in NAMES and node.lineno == node.end_lineno:
            new = NAMES[node.attr]
            s = node.end_col_offset - len(node.attr)
            if new == "abs_removed":
                continue
            if new in ("NIL_PLUS", "FLOAT_MAX_NEG"):
                continue
            out.append((node.lineno, s, node.end_col_offset, new, "%s -> %s" % (node.attr, new)))
        elif isinstance(node, ast.Name) and node.id in ("min", "max"):
            out.append((node.lineno, node.col_offset, node.end_col_offset, NAMES[node.id],
                        "%s -> %s" % (node.id, NAMES[node.id])))
        elif isinstance(node, (ast.Break, ast.Continue)):
            out.append((node.lineno, node.col_offset, node.end_col_offset, "pass",
                        "%s -> pass" % type(node).__name__.lower()))
        elif isinstance(node, ast.Assign) and node.lineno == node.end_lineno and len(node.targets) == 1 \
                and isinstance(node.targets[0], (ast.Attribute, ast.Subscript)):
            out.append((node.lineno, node.col_offset, node.end_col_offset, "pass",
                        "statement `%s` -> pass" % lines[node.lineno - 1].strip()[:60]))
    # de-duplicate, stable order
    seen, res = set(), []
    for m in sorted(out):
        if m[:4] not in seen:
            seen.add(m[:4])
            res.append(m)
    return res


def sh(cmd, cwd=None, env=None, timeout=1800):
    e = dict(os.environ)
    if env:
        e.update(env)
    try:
        r = subprocess.run(cmd, shell=True, cwd=cwd, env=e, capture_output=True, text=True, timeout=timeout)
        return r.returncode, r.stdout + r.stderr
    except subprocess.TimeoutExpired:
        return 124, "timeout"


def main():
    args = sys.argv[1:]
    files = list(FILES)
    if "--files" in args:
        files = [f for f in FILES if any(f.endswith(x) for x in args[args.index("--files") + 1].split(","))]
    limit = int(args[args.index("--limit") + 1]) if "--limit" in args else None
    every = int(args[args.index("--every") + 1]) if "--every" in args else 1
    done = set()
    if "--resume" in args and os.path.exists(OUT):
        for l in open(OUT):
            try:
                done.add(json.loads(l)["id"])
            except Exception:
                pass
    plan = []
    for f in files:
        src = open(os.path.join("/repo", f)).read()
        for k, m in enumerate(mutants_of(f, src)):
            if k % every:
                continue
            plan.append((f, m))
    if "--only" in args:
        # re-run selected mutants (id prefixes "file:line:"), e.g. survivors after a check was strengthened
        pref = args[args.index("--only") + 1].split(",")
        plan = [(f, m) for f, m in plan if any(("%s:%d:" % (f, m[0])).startswith(x) or x.startswith("%s:%d:" % (f, m[0]))
                                               for x in pref)]
        done = set()
    if limit:
        plan = plan[:limit]
    if "--list" in args:
        for f, m in plan:
            print("%s:%d  %s" % (f, m[0], m[4]))
        print(len(plan), "mutants")
        return 0
    os.makedirs(os.path.dirname(OUT), exist_ok=True)
    sh("git -C /repo worktree add -f --detach %s HEAD" % WT)
    try:
        for f, m in plan:
            line, c0, c1, new, desc = m
            mid = "%s:%d:%d:%s" % (f, line, c0, desc)
            if mid in done:
                continue
            path = os.path.join(WT, f)
            src = open(os.path.join("/repo", f)).read()
            lines = src.split("\n")
            old_line = lines[line - 1]
            lines[line - 1] = old_line[:c0] + new + old_line[c1:]
            open(path, "w").write("\n".join(lines))
            rec = {"id": mid, "file": f, "line": line, "edit": desc, "old": old_line.strip(),
                   "new": lines[line - 1].strip()}
            t0 = time.time()
            rc, out = sh("%s -m pytest -q -x -p no:cacheprovider --timeout=300 "
                         "--deselect tests/opfython/models/test_supervised.py::test_supervised_opf_learn "
                         "2>&1 | tail -3" % PY, cwd=WT, timeout=900)
            if " passed" not in out or " failed" in out or "error" in out.lower():
                rec["status"] = "killed-by-suite"
            else:
                rec["status"] = "survived"
                rec["checks"] = {}
                for c in (os.environ.get("SWEEP_CHECKS", "").split(",") if os.environ.get("SWEEP_CHECKS") else FILES[f]):
                    rc, out = sh("./check %s --tier quick" % c, cwd=CHECK_HOME,
                                 env={"VERIF_REPO": WT}, timeout=900)
                    nv = out.count("VIOLATION property=")
                    rec["checks"][c] = {"exit": rc, "violations": nv}
                    if rc == 1 and nv:
                        rec["status"] = "caught"
                        rec["by"] = c
                        first = [l for l in out.split("\n") if l.startswith("# ")]
                        rec["first"] = first[0][:300] if first else ""
                        break
                    if rc not in (0, 1):
                        rec["harness"] = out[-400:]
            rec["wall_s"] = round(time.time() - t0, 1)
            with open(OUT, "a") as fh:
                fh.write(json.dumps(rec) + "\n")
            print("%-16s %-6s %s:%d %s" % (rec["status"], rec.get("by", ""), f, line, desc), flush=True)
            open(path, "w").write(src)
    finally:
        sh("git -C /repo worktree remove --force %s" % WT)
        sh("rm -rf %s" % WT)
    return 0


if __name__ == "__main__":
    sys.exit(main())
