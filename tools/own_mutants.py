#!/usr/bin/env python3
"""tools/own_mutants.py [ids...]  -- our own detection campaign (DESIGN.md section 6).

Each mutant is a textual replacement in one library file.  For every mutant a
scratch worktree of /repo (under /var/tmp, removed afterwards) is patched, the
pinned suite is run there, then the listed quick checks with VERIF_REPO
pointing at it.  'equivalent' mutants keep the property and MUST stay silent.
Results are appended to /verif/mutants/RESULTS.md and patches saved to
/verif/mutants/<id>.diff."""
import json
import os
import re
import shutil
import subprocess
import sys
import time

VERIF = os.path.dirname(os.path.dirname(os.path.abspath(__file__)))
PY = "/venv/bin/python"
CHECK_HOME = os.environ.get("VERIF_SNAP") or VERIF
S = "opfython/models/supervised.py"
SS = "opfython/models/semi_supervised.py"
KN = "opfython/models/knn_supervised.py"
UN = "opfython/models/unsupervised.py"
HP = "opfython/core/heap.py"
DI = "opfython/math/distance.py"
GE = "opfython/math/general.py"
KG = "opfython/subgraphs/knn.py"
SG = "opfython/core/subgraph.py"
OP = "opfython/core/opf.py"
SP = "opfython/stream/splitter.py"
CV = "opfython/utils/converter.py"
PA = "opfython/stream/parser.py"
DE = "opfython/utils/decorator.py"

# id, checks, file, old, new, equivalent, nth occurrence (0 = first, None = must be unique)
M = [
 ("m01-sum-instead-of-max", ["C01"], S, "current_cost = np.maximum(h.cost[p], weight)\n\n                        if current_cost < h.cost[q]:\n                            self.subgraph.nodes[q].pred = p\n                            self.subgraph.nodes[\n                                q\n                            ].predicted_label",
  "current_cost = h.cost[p] + weight\n\n                        if current_cost < h.cost[q]:\n                            self.subgraph.nodes[q].pred = p\n                            self.subgraph.nodes[\n                                q\n                            ].predicted_label", False, None),
 ("m02-idx_nodes-at-insertion", ["C01", "C03"], S, "            p = h.remove()\n\n            self.subgraph.idx_nodes.append(p)\n", "            p = h.remove()\n\n            self.subgraph.idx_nodes.insert(0, p) if h.cost[p] == 0 else self.subgraph.idx_nodes.append(p)\n", True, None),
 ("m03-only-one-endpoint-prototype", ["C02"], S, "                    if self.subgraph.nodes[pred].status != c.PROTOTYPE:\n                        self.subgraph.nodes[pred].status = c.PROTOTYPE\n", "                    if self.subgraph.nodes[pred].status != c.PROTOTYPE and pred != 0:\n                        self.subgraph.nodes[pred].status = c.PROTOTYPE\n", False, None),
 ("m04-prim-le-equivalent", ["C01", "C02", "C04"], S, "                        if weight < h.cost[q]:\n                            self.subgraph.nodes[q].pred = p\n", "                        if weight <= h.cost[q]:\n                            self.subgraph.nodes[q].pred = p\n", True, None),
 ("m05-early-exit-ge", ["C03"], S, "                and min_cost > self.subgraph.nodes[self.subgraph.idx_nodes[j + 1]].cost\n", "                and min_cost >= self.subgraph.nodes[self.subgraph.idx_nodes[j + 1]].cost\n", True, None),
 ("m06-early-exit-loop-bound", ["C03"], S, "                j < (self.subgraph.n_nodes - 1)\n", "                j < (self.subgraph.n_nodes - 2)\n", False, None),
 ("m07-early-exit-current-cost", ["C03"], S, "                and min_cost > self.subgraph.nodes[self.subgraph.idx_nodes[j + 1]].cost\n", "                and min_cost > self.subgraph.nodes[self.subgraph.idx_nodes[j]].cost\n", True, None),
 ("m08-heap-pos-not-updated", ["C05"], HP, "                self.pos[self.p[i]] = i\n                self.pos[self.p[j]] = j\n\n                i = j\n                j = self.dad(i)\n\n        else:", "                self.pos[self.p[i]] = i\n\n                i = j\n                j = self.dad(i)\n\n        else:", False, None),
 ("m09-heap-remove-no-sift", ["C05"], HP, "            self.last -= 1\n\n            self.go_down(0)\n", "            self.last -= 1\n\n            if self.last > 1:\n                self.go_down(0)\n", False, None),
 ("m10-heap-right-child-tie-equivalent", ["C05"], HP, "            if right <= self.last and self.cost[self.p[right]] < self.cost[self.p[j]]:\n                j = right\n\n        else:", "            if right <= self.last and self.cost[self.p[right]] <= self.cost[self.p[j]] and self.cost[self.p[right]] < self.cost[self.p[i]]:\n                j = right\n\n        else:", True, None),
 ("m11-gower-hard-coded-4", ["C06"], DI, "    return np.sum(dist) / x.shape[0]\n", "    return np.sum(dist) / 4\n", False, None),
 ("m12-registry-swapped", ["C06"], DI, '    "vicis_symmetric2": vicis_symmetric2_distance,\n    "vicis_symmetric3": vicis_symmetric3_distance,\n', '    "vicis_symmetric2": vicis_symmetric3_distance,\n    "vicis_symmetric3": vicis_symmetric2_distance,\n', False, None),
 ("m13-lorentzian-dropped-fabs", ["C06", "C08"], DI, "    dist = np.log(1 + np.fabs(x - y))\n", "    dist = np.log(1 + (x - y))\n", False, None),
 ("m14-soergel-asymmetric", ["C08", "C06"], DI, "    dist = np.sum(np.fabs(x - y)) / np.sum(np.maximum(x, y))\n", "    dist = np.sum(np.fabs(x - y)) / np.sum(np.maximum(x, 0.999 * y))\n", False, None),
 ("m15-inplace-shift-back", ["C07"], DE, "        x = x + c.EPSILON\n        y = y + c.EPSILON\n", "        x += c.EPSILON\n        y = y + c.EPSILON\n", False, None),
 ("m16-predict-j-ne-i-back", ["C09", "C14"], KN, "            for j in range(self.subgraph.n_nodes):\n                if self.pre_computed_distance:\n                    distances[best_k] = self.pre_distances[\n                        pred_subgraph.nodes[i].idx\n                    ][self.subgraph.nodes[j].idx]\n", "            for j in range(self.subgraph.n_nodes):\n                if j == i + 1:\n                    continue\n                if self.pre_computed_distance:\n                    distances[best_k] = self.pre_distances[\n                        pred_subgraph.nodes[i].idx\n                    ][self.subgraph.nodes[j].idx]\n", False, None),
 ("m17-unsup-predict-minmax-swapped", ["C14"], UN, "                    temp_cost = np.minimum(self.subgraph.nodes[neighbour].cost, density)\n", "                    temp_cost = np.maximum(self.subgraph.nodes[neighbour].cost, density)\n", False, None),
 ("m18-pre-transposed-index", ["C10"], S, "                            weight = self.pre_distances[self.subgraph.nodes[p].idx][\n                                self.subgraph.nodes[q].idx\n                            ]\n                        else:\n                            weight = self.distance_fn(\n                                self.subgraph.nodes[p].features,\n                                self.subgraph.nodes[q].features,\n                            )\n\n                        if weight < h.cost[q]:", "                            weight = self.pre_distances[self.subgraph.nodes[q].idx][\n                                self.subgraph.nodes[p].idx\n                            ]\n                        else:\n                            weight = self.distance_fn(\n                                self.subgraph.nodes[p].features,\n                                self.subgraph.nodes[q].features,\n                            )\n\n                        if weight < h.cost[q]:", False, None),
 ("m19-pre-row-counter-instead-of-idx", ["C10"], UN, "                    distances[best_k] = self.pre_distances[\n                        pred_subgraph.nodes[i].idx\n                    ][self.subgraph.nodes[j].idx]", "                    distances[best_k] = self.pre_distances[\n                        pred_subgraph.nodes[i].idx\n                    ][j]", False, None),
 ("m20-precompute-6-digits", ["C10"], GE, "    np.savetxt(output, distances, delimiter=delimiter)\n", "    np.savetxt(output, distances, delimiter=delimiter, fmt=\"%.6e\")\n", False, None),
 ("m21-index-dependent-ties", ["C11", "C01"], S, "                        current_cost = np.maximum(h.cost[p], weight)\n\n                        if current_cost < h.cost[q]:\n                            self.subgraph.nodes[q].pred = p\n                            self.subgraph.nodes[\n                                q\n                            ].predicted_label", "                        current_cost = np.maximum(h.cost[p], weight) + 1e-9 * q\n\n                        if current_cost < h.cost[q]:\n                            self.subgraph.nodes[q].pred = p\n                            self.subgraph.nodes[\n                                q\n                            ].predicted_label", False, None),
 ("m22-radius-from-rank0", ["C12"], KG, "                    if distances[l] > self.nodes[i].radius:\n", "                    if l == 0 and distances[l] > self.nodes[i].radius:\n", False, None),
 ("m23-npdf-starts-at-0", ["C12"], KG, "            n_pdf = 1\n", "            n_pdf = 0\n", False, None),
 ("m24-knn-le-insertion-equivalent", ["C12", "C13", "C14"], KG, "                    while cur_k > 0 and distances[cur_k] < distances[cur_k - 1]:\n", "                    while cur_k > 0 and distances[cur_k] <= distances[cur_k - 1]:\n", True, None),
 ("m25-root-not-propagated", ["C13"], UN, "                        self.subgraph.nodes[q].root = self.subgraph.nodes[p].root\n", "                        self.subgraph.nodes[q].root = p\n", False, None),
 ("m26-conquest-ge", ["C13"], KN, "                    if current_cost > h.cost[q]:\n", "                    if current_cost >= h.cost[q]:\n", True, None),   # differs only if two mapped densities are exactly 1 apart
 ("m27-semi-label-not-propagated", ["C15"], SS, "                            self.subgraph.nodes[\n                                q\n                            ].predicted_label = self.subgraph.nodes[p].predicted_label\n", "                            if q < current_n_nodes or p < current_n_nodes:\n                                self.subgraph.nodes[\n                                    q\n                                ].predicted_label = self.subgraph.nodes[p].predicted_label\n", False, None),
 ("m28-knn-keeps-last-best", ["C16"], KN, "            if acc > max_acc:\n", "            if acc >= max_acc:\n", False, None),
 ("m29-unsup-best-k-off", ["C16"], UN, "                if cut < min_cut:\n", "                if cut <= min_cut:\n", False, None),
 ("m30-mark-nodes-stops-early", ["C17"], SG, "        while self.nodes[i].pred != c.NIL:\n            self.nodes[i].relevant = c.RELEVANT\n            i = self.nodes[i].pred\n\n        self.nodes[i].relevant = c.RELEVANT\n", "        while self.nodes[i].pred != c.NIL:\n            self.nodes[i].relevant = c.RELEVANT\n            i = self.nodes[i].pred\n", False, None),
 ("m31-learn-swap-without-copy", ["C17"], S, "                            X_val[err, :].copy(),\n                            X_train[j, :].copy(),\n", "                            X_val[err, :].copy(),\n                            X_train[j, :],\n", False, None),
 ("m32-split-second-permutation-for-Y", ["C18"], SP, "    Y_1, Y_2 = Y[idx[:halt]], Y[idx[halt:]]\n", "    Y_1, Y_2 = Y[idx[:halt]], Y[np.sort(idx[halt:])]\n", False, None),
 ("m33-json-label-shift-dropped", ["C18"], CV, '                {"id": data[0], "label": data[1] - 1, "features": list(data[2:])}\n', '                {"id": data[0], "label": data[1] - 1 if n_samples > 1 else data[1], "features": list(data[2:])}\n', False, None),
 ("m34-load-only-subgraph", ["C19"], OP, "            self.__dict__.update(opf.__dict__)\n", "            self.subgraph = opf.subgraph\n", False, None),
 ("m35-accuracy-wrong-denominator", ["C20"], GE, "    errors[:, 0] /= np.nansum(counts) - counts\n", "    errors[:, 0] /= np.maximum(np.nansum(counts) - counts, counts)\n", False, None),
 ("m36-costs-as-float64-equivalent", ["C01", "C03", "C15"], S, "            self.subgraph.nodes[p].cost = h.cost[p]\n\n            for q in range(self.subgraph.n_nodes):\n                if p != q:\n                    if h.cost[p] < h.cost[q]:", "            self.subgraph.nodes[p].cost = float(h.cost[p])\n\n            for q in range(self.subgraph.n_nodes):\n                if p != q:\n                    if h.cost[p] < h.cost[q]:", True, None),
]


def sh(cmd, cwd=None, env=None):
    e = dict(os.environ)
    if env:
        e.update(env)
    r = subprocess.run(cmd, shell=True, cwd=cwd, env=e, capture_output=True, text=True)
    return r.returncode, r.stdout + r.stderr


def main():
    want = set(sys.argv[1:])
    os.makedirs(os.path.join(VERIF, "mutants"), exist_ok=True)
    rows = []
    for mid, checks, path, old, new, equiv, nth in M:
        if want and mid not in want and mid.split("-")[0] not in want:
            continue
        wt = "/var/tmp/opf-own-%d" % os.getpid()
        sh("git -C /repo worktree add -f --detach %s HEAD" % wt)
        try:
            fp = os.path.join(wt, path)
            src = open(fp).read()
            cnt = src.count(old)
            if cnt == 0 or (cnt > 1 and nth is None):
                rows.append((mid, checks, "PATTERN matches %d times - skipped" % cnt, "", equiv))
                print(mid, "pattern count", cnt)
                continue
            if nth is None:
                src = src.replace(old, new)
            else:
                parts = src.split(old)
                src = old.join(parts[:nth + 1]) + new + old.join(parts[nth + 1:])
            open(fp, "w").write(src)
            _, diff = sh("git diff -- opfython", cwd=wt)
            open(os.path.join(VERIF, "mutants", mid + ".diff"), "w").write(diff)
            env = {"PYTHONPATH": wt, "NUMBA_CACHE_DIR": os.path.join(wt, ".numba")}
            _, out = sh("%s -m pytest -q -p no:cacheprovider --timeout=900 2>&1 | tail -2" % PY, cwd=wt, env=env)
            suite = out.strip().splitlines()[-1] if out.strip() else "?"
            suite = re.sub(r"=+", "", suite).strip()
            verdicts = []
            for c in checks:
                t0 = time.time()
                rc, o = sh("%s/check %s" % (CHECK_HOME, c), cwd=CHECK_HOME, env={"VERIF_REPO": wt})
                expl = [l for l in o.splitlines() if l.startswith("# ")]
                verdicts.append("%s:%s(%.0fs)" % (c, {0: "silent", 1: "VIOLATION", 2: "HARNESS-ERROR"}.get(rc, rc),
                                                  time.time() - t0))
                if rc == 1 and expl and len(verdicts) == 1:
                    first = expl[0][:160]
            ok = all(("silent" in v) == equiv for v in verdicts) if equiv else any("VIOLATION" in v for v in verdicts)
            rows.append((mid, checks, suite, " ".join(verdicts), equiv, ok))
            print(mid, "|", suite, "|", " ".join(verdicts), "| equivalent" if equiv else "", "| OK" if ok else "| *** MISSED/ALARM ***")
        finally:
            sh("git -C /repo worktree remove --force %s" % wt)
            shutil.rmtree(wt, ignore_errors=True)
    with open(os.path.join(VERIF, "mutants", "RESULTS.md"), "a") as f:
        f.write("\n## run at repo %s, %s\n\n| mutant | pinned suite | checks | kind | verdict |\n|---|---|---|---|---|\n"
                % (sh("git -C /repo rev-parse --short HEAD")[1].strip(), time.strftime("%Y-%m-%d %H:%M")))
        for r in rows:
            if len(r) == 5:
                f.write("| %s | %s | | | skipped |\n" % (r[0], r[2]))
            else:
                f.write("| %s | %s | %s | %s | %s |\n" % (r[0], r[2], r[3], "equivalent (must stay silent)" if r[4] else "breaks property",
                                                      "as expected" if r[5] else "**NOT as expected**"))
    shutil.rmtree(os.path.join(VERIF, "replays"), ignore_errors=True)


if __name__ == "__main__":
    main()
