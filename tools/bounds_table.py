#!/usr/bin/env python3
"""tools/bounds_table.py -- markdown table of what the last run of every check covered (from evidence/*.json)."""
import glob
import json
import os

VERIF = os.path.dirname(os.path.dirname(os.path.abspath(__file__)))
rows = ["| check | tier / seed | states | transitions (real calls) | executions compared with the reference | "
        "distinct outcomes | exhaustive within bounds | wall |", "|---|---|---|---|---|---|---|---|"]
for f in sorted(glob.glob(os.path.join(VERIF, "evidence", "C*.json"))):
    e = json.load(open(f))
    c = e["coverage"]
    rows.append("| %s | %s / %s | %s | %s | %s | %s | %s | %.0f s |" % (
        e["property_id"], e["tier"], e["seed"], "{:,}".format(c["states"]), "{:,}".format(c["transitions"]),
        "{:,}".format(c["traces_validated_against_impl"]), c["distinct_outcomes"],
        "yes" if c["exhaustive"] else "no (%s)" % c.get("cap_hit"), e["wall_s"]))
print("\n".join(rows))
