"""Per-property manifest text.  A property appears in CHECKS once its check exists."""
NOTE_COMMON = ("Trusted base: the hand-written explorer and reference model in /verif/mc (self-tested in "
               "/verif/tests), CPython/numpy/numba as installed. Verdict covers exactly the bounds in the "
               "evidence file; larger sizes rest on the small-scope argument of DESIGN.md section 1.")
CHECKS = {
 "C05": {
  "engine": "explorer-B",
  "technique": "explicit-state model checking of the real Heap (BFS to fixpoint, reference priority queue in lock-step)",
  "text": "Every reachable joint state (real Heap fields x reference queue) for capacities 1..5 (thorough: ..7), both "
          "policies, all key tie patterns, is visited; every transition calls the real method and is compared with the "
          "reference, every state is drained on a copy. Exhaustive within the bounds, so any wrong comparison, stale "
          "position map or missed sift that has a witness with <= 5 (7) elements is found.",
  "note": NOTE_COMMON,
 },
}
NOT_APPLICABLE = {p: "check not built yet (build in progress; see DESIGN.md section 7)" for p in
                  ["C%02d" % i for i in range(1, 21)]}
