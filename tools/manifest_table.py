"""Per-property manifest text.  A property appears in CHECKS once its check exists."""
NOTE_COMMON = ("Trusted base: the hand-written explorer and reference model in /verif/mc (self-tested in "
               "/verif/tests), CPython/numpy/numba as installed. Verdict covers exactly the bounds in the "
               "evidence file; larger sizes rest on the small-scope argument of DESIGN.md section 1.")
CHECKS = {
 "C05": {
  "engine": "explorer-B",
  "technique": "explicit-state model checking of the real Heap (BFS to fixpoint, reference priority queue in lock-step)",
  "text": "Every reachable joint state (real Heap fields x reference queue) for capacities 1..5 (thorough: ..7), both "
          "policies, all key tie patterns, is visited; every transition calls the real method and is compared with the "
          "reference, every state is drained on a copy. Exhaustive within the bounds, so any wrong comparison, stale "
          "position map or missed sift that has a witness with <= 5 (7) elements is found.",
  "note": NOTE_COMMON,
 },
}

def _e(technique, text, engine="explorer-E"):
    return {"engine": engine, "technique": technique, "text": text, "note": NOTE_COMMON}

CHECKS.update({
 "C01": _e("bounded-exhaustive exploration of the real SupervisedOPF.fit over all weak edge orderings / weight assignments x labelings, minimax-path reference",
           "Every (graph, labeling) of the stated families (complete for n<=4 as order types) is fitted by the real code and the whole forest (costs, links, labels, order) is compared with a Floyd-Warshall minimax reference; exhaustive within bounds."),
 "C02": _e("bounded-exhaustive exploration; oracle enumerates all spanning trees and accepts any MST's boundary set",
           "Prototype sets produced by the real code on every graph x labeling in the bounds (supervised and semi-supervised) must be a member of the all-MST boundary family; covers every tie pattern for n<=4."),
 "C03": _e("bounded-exhaustive exploration of (fitted forest, query) pairs against the exhaustive argmin",
           "Every fitted forest on n<=4(5) samples x every query distance vector over the alphabet (train on each n-subset of each (n+1)-graph, predict the rest) is predicted by the real code and checked for membership in the exhaustive minimiser label set."),
 "C04": _e("bounded-exhaustive exploration: all strict edge orders, all arrangements of a generic point set under 40 metrics, all lattice data for KNN",
           "All tie-free order types for n<=4 (thorough: all 10! for n=5) and every dissimilarity metric are trained and re-predicted by the real code; KNN-supervised on all lattice sequences with ties."),
 "C11": _e("bounded-exhaustive metamorphic exploration: all n! training orders x five monotone metric transforms",
           "Every permutation of every tie-free training set in the bounds and every Euclidean-family identifier is run on the real code and compared per sample with the base run."),
 "C15": _e("bounded-exhaustive exploration of SemiSupervisedOPF.fit over all graphs on labeled+unlabeled nodes, minimax reference + differential vs SupervisedOPF",
           "Every graph on n_l+n_u <= 6 nodes over the weight alphabet x every labeling: full-graph minimax reference, labeled-MST prototype family, and state identity with SupervisedOPF when n_u = 0."),
})

CHECKS.update({
 "C06": _e("bounded-exhaustive evaluation of every metric on all ordered vector pairs of the domain grids against an independent closed-form transcription; registry/option/accepted-set probes",
           "All ordered pairs over the R/N/P/S grids (lengths 1..3, thorough 4) for all 47 identifiers via the registry, plus resolution through OPF and the four model constructors and the accepted-identifier set; exhaustive over the grids."),
 "C07": _e("explicit-state search over call histories (pool bits x hidden-state digest x model digest) with prefix replay; all metric call histories of length <= 3",
           "Every history of <=3 metric calls over every ordered (also aliased) pair of a zero-containing pool for all 47 metrics, BFS to fixpoint (depth<=4) over model operations for the four kinds, and fresh-twice differential; each transition is a real call checked for caller-array bit-identity and history-independent value.", engine="explorer-B"),
 "C08": _e("bounded-exhaustive evaluation of the axiom table on all ordered pairs and all ordered triples of the domain grids (pair matrix filled by real calls)",
           "Finite/symmetric/non-negative/zero-self on all ordered pairs and triangle on all ordered triples of the class grids for the rows of the fixed axiom table; exhaustive over the grids."),
})

CHECKS.update({
 "C09": _e("exhaustive enumeration of all batches (<=3) and all two-call histories over a query pool for every fitted model of the bounded families; model-state hash closes the history space",
           "For each of the four kinds and every lattice training sequence, every batch/history in the bounds is predicted by the real code and compared with the sample's stand-alone outcome; the prediction-relevant model state is hashed after each call (fixpoint at one state).", engine="explorer-B"),
 "C12": _e("bounded-exhaustive exploration of fresh k-NN subgraphs plus explicit-state search over create/pdf/eliminate/destroy operation sequences (prefix replay, reference in lock-step)",
           "Every graph/lattice sequence x k x k' x height on a fresh subgraph, every operation sequence to depth 4 (5) with state dedup, and the subgraph state left by both density fits, compared with a sorted-distance reference.", engine="explorer-B"),
 "C13": _e("bounded-exhaustive exploration of both density fits over lattice/generic/graph families and all k ranges; forest invariants checked on the final state with adjacency snapshots taken through outside seams",
           "All lattice sequences (heavy ties), generic arrangements and pre-computed graphs x all k ranges: every clause of the statement is evaluated on the real final state."),
 "C14": _e("bounded-exhaustive exploration of (fitted model, query, batch position) against the exhaustive k-nearest max-min rule with every valid tie choice",
           "Every model of the lattice families x every query (training copies, midpoints, far) x every batch position 0..n; membership in the set of outcomes allowed by the exhaustive rule."),
 "C16": _e("stateless choice exploration: every criterion answer sequence scripted through the intercepted accuracy / cut routine; plus recorded natural criterion values",
           "All 120 (KNN) / all (unsupervised) answer sequences over the criterion alphabet for every k range up to 4, and all lattice training/validation sets with the real criterion recorded; oracle = smallest best candidate and final model built with it.", engine="explorer-D"),
})

CHECKS.update({
 "C10": _e("bounded-exhaustive differential exploration: every ordered train index set x metrics x file formats x models, file written by the library's own routine",
           "For every dataset in the bounds the distance file is produced by pre_compute_distance (.txt and .csv) and every ordered train/test index split is trained and predicted twice (file-fed vs feature-fed); node state, order, best_k, clusters and predictions must be bit-identical; get_distances() vs the metric on all ordered pairs."),
 "C17": _e("stateless choice exploration of every RNG answer sequence of SupervisedOPF.learn by prefix replay; bounded-exhaustive exploration of predict marking and prune runs",
           "All 648 tiny learn configurations are explored over every sequence of answers of the intercepted random draw (complete), each execution checked for sample conservation and best-model retention; relevance marking is checked against every choice of exhaustive minimisers on all forests of the C03 families; prune re-fit sets are checked against the flags.", engine="explorer-D"),
 "C18": _e("stateless choice exploration: every permutation answer of the intercepted numpy permutation in split; bounded-exhaustive exploration of all small OPF binary datasets through the converters/loaders/parser",
           "split/split_with_index/merge are run for every permutation the RNG could return (n<=5), every percentage and label pattern; all small datasets are written as OPF binaries and taken through opf2txt/csv/json, the loaders, the parser and Subgraph(from_file).", engine="explorer-D"),
 "C19": _e("explicit enumeration of all enabled save/load/predict operation sequences (prefix replay) for every kind x metric x distance mode, field-by-field state comparison",
           "Every enabled sequence of {save, load into fresh, predict original, predict loaded, save loaded} up to depth 3 (4) for 4 kinds x 47 metrics (x pre-computed mode), with the original's full state hashed around save, the loaded state compared field by field and predictions compared; separate-interpreter load.", engine="explorer-B"),
 "C20": _e("bounded-exhaustive enumeration of all (labels, predictions) vectors and small matrices against exact rational definitions",
           "All label/prediction pairs with K<=3 (4), length<=5 (6) in both list and array form and all small matrices: every measure is compared with the statement's definition evaluated in Fraction arithmetic."),
})

NOT_APPLICABLE = {p: "check not built yet (build in progress; see DESIGN.md section 7)" for p in
                  ["C%02d" % i for i in range(1, 21)]}
