"""Per-property manifest text.  A property appears in CHECKS once its check exists."""
NOTE_COMMON = ("Trusted base: the hand-written explorer and reference model in /verif/mc (self-tested in "
               "/verif/tests against more naive formulations and on a deliberately broken toy), CPython/numpy/numba "
               "as installed. The verdict covers exactly the bounds reported in the evidence file (coverage.bounds, "
               "coverage.rule); larger sizes rest on the small-scope argument of DESIGN.md section 1 and the limits "
               "are listed in DESIGN.md 9.7. Every violation is re-executed from its recorded program without the "
               "explorer before it is reported.")


def _e(technique, text, engine="explorer-E"):
    return {"engine": engine, "technique": technique, "text": text, "note": NOTE_COMMON}


CHECKS = {
 "C01": _e("bounded-exhaustive exploration of the real SupervisedOPF.fit (all weak edge orderings for n<=4, all weight "
           "assignments over 2-3 values for n=5(6), all lattice sequences up to n=7) against a Floyd-Warshall minimax "
           "reference",
           "Every (graph, labeling) of the stated families - complete as order types for n<=4, incl. zero weights, "
           "non-identity and duplicate-identifier index arrays, weights scaled by 1e-25..1e25, all 8! orders of an 8-mark Golomb ruler - is fitted by the real code on re-used model "
           "objects and the whole forest (costs bit-exact, links, labels, conquest order) is compared with the "
           "reference. Exhaustive within bounds."),
 "C02": _e("bounded-exhaustive exploration; the oracle enumerates ALL spanning trees and accepts the boundary set of "
           "any minimum one",
           "Prototype sets produced by the real code on every graph x labeling of C01's families (supervised and "
           "semi-supervised, up to 7 samples) must be a member of the all-MST boundary family; covers every tie "
           "pattern for n<=4 and uniqueness on all strict orders; also tables with negative weights, int64 matrices whose weights differ beyond the 53rd bit (exact integer oracle), the classifier left by learn(), and two dense groups plus a stray sample (n = 9..29, unique tree)."),
 "C03": _e("bounded-exhaustive exploration of (fitted forest, query) pairs against the exhaustive argmin",
           "Every fitted forest on n<=4(5) samples x every query distance vector over the alphabet (train on each "
           "n-subset of each (n+1)-graph, predict the rest), value tables in near-equal / tiny / huge regimes, "
           "direction-dependent metrics, tiny-scale lattices, integer-typed training matrices, descending identifier arrays one object toggled between matrix-fed and metric-fed use, and all six-node graphs over two weight levels; the returned label must belong to the exhaustive "
           "minimisers' label set computed from the model's own costs."),
 "C04": _e("bounded-exhaustive exploration: all strict edge orders, all arrangements of a generic point set under 40 "
           "metrics, numerical-regime tables, all lattice data for KNN",
           "All tie-free order types for n<=4 (thorough: all 10! for n=5), every dissimilarity metric, near-equal / "
           "huge / tiny regimes, five-sample arrangements, the classifier left by learn() and one tie-free chain of 1100 samples (optimum paths > 1000 arcs deep) are trained and re-predicted by the real code; KNN-supervised on all lattice "
           "sequences with ties, validation sets and max_k."),
 "C05": _e("explicit-state model checking of the real Heap: BFS to fixpoint from the empty heap (reference priority "
           "queue in lock-step) plus depth-bounded BFS from every valid heap arrangement of up to 9 (10) keys",
           "Every reachable joint state (real Heap fields x reference queue) for capacities 1..5 (thorough ..7), both "
           "policies, all key tie patterns incl. FLOAT_MAX/inf, re-insertion of removed elements, policies given through the setter or as run-time built strings, and every operation sequence of length <= 2 (3) from "
           "each of the 1198 (4558) valid heaps of 6..9 (10) distinct keys built through real inserts; every "
           "transition calls the real method, every state is drained on a copy.", engine="explorer-B"),
 "C06": _e("bounded-exhaustive evaluation of every metric on all ordered vector pairs of the domain grids (caller "
           "buffers re-used in place) against an independent closed-form transcription; length sweep; registry / "
           "option / accepted-set / save-load probes",
           "All ordered pairs over the R/N/P/S/T grids (lengths 1..3, thorough 4) for all 47 identifiers via the "
           "registry (as separate buffers and as rows of one matrix), every vector length 1..160 and around 256/512/1024 incl. a cancellation-prone pair, resolution "
           "through OPF and the four model constructors (also after a save/load into another identifier, and with all "
           "47 x 5 objects alive at once), zero-containing probability vectors under the epsilon-shift convention, and the accepted-identifier set."),
 "C07": _e("explicit-state search over call histories (pool bits x hidden-state digest x model digest) with prefix "
           "replay from a restored pristine module state; all metric call histories of length <= 3",
           "Every history of <=3 operations over {metric call on any ordered (also aliased) pair, caller overwrites "
           "its vector in place, float32 evaluation} for all 47 metrics; BFS to fixpoint (depth<=4) over model "
           "operations incl. fits of unrelated models, a fit of the same object on two samples, matrices holding inf/nan big-endian matrices and heavily tied training sets for the four kinds; fresh-twice differential; each transition "
           "is a real call checked for caller-array bit-identity and history-independent value.", engine="explorer-B"),
 "C08": _e("bounded-exhaustive evaluation of the fixed axiom table on all ordered pairs and all ordered triples of "
           "the domain grids (pair matrix filled by real calls)",
           "Finite/symmetric/non-negative/zero-self on all ordered pairs and triangle on all ordered triples of the "
           "class grids (incl. the tolerance ladder around 1e-8 / 1e-5 and zero-containing vectors) for the rows of "
           "the axiom table; finiteness and symmetry also on vectors of length 32..1024; every zero also as -0.0; integer-typed vectors with exact zeros against their float64 copies; keyword-argument calls."),
 "C09": _e("exhaustive enumeration of all batches (<=3) and all two-call histories over a query pool for every fitted "
           "model of the bounded families; model-state hash closes the history space; batches of 33..81 samples",
           "For each of the four kinds and every lattice training sequence (KNN/unsupervised also with k forced), "
           "every batch/history in the bounds is predicted by the real code and compared with the sample's "
           "stand-alone outcome; the prediction-relevant model state is hashed after each call (fixpoint at one "
           "state).", engine="explorer-B"),
 "C10": _e("bounded-exhaustive differential exploration: every ordered train index set x metrics x file formats x "
           "models x dataset dtypes, file written by the library's own routine",
           "For every dataset in the bounds the distance file is produced by pre_compute_distance (.txt and .csv) and "
           "every ordered train/test index split is trained and predicted twice (file-fed vs feature-fed); node "
           "state, order, best_k, clusters and predictions must be bit-identical; get_distances() vs the metric on "
           "all ordered pairs; metrics with non-zero self-distance and index sets that overlap or repeat a row; distance files whose first entry is negative; antisymmetric and nearly symmetric metrics; files written over an existing file (recorded as history)."),
 "C11": _e("bounded-exhaustive metamorphic exploration: all n! training orders x five monotone metric transforms; "
           "monotone ladder of 1.8e5 distances per identifier",
           "Every permutation of every tie-free training set in the bounds (integer pools, a pool with cancelling "
           "coordinates, a 1e-11-scaled pool) and every Euclidean-family identifier is run on the real code and "
           "compared per sample with the base run; each identifier is checked to be non-decreasing in the Euclidean "
           "distance over a fine multiplicative ladder."),
 "C12": _e("bounded-exhaustive exploration of fresh k-NN subgraphs plus explicit-state search over "
           "create/pdf/eliminate/destroy operation sequences (prefix replay, reference in lock-step)",
           "Every graph/lattice sequence (incl. non-identity index arrays, direction-dependent metrics, the 1e-5 "
           "fallback alphabets incl. exactly 1e-5 and nearly equal distances) x k x k' x height on a fresh subgraph, every operation sequence to depth 4 (5) with "
           "state dedup, and the subgraph state left by both density fits, compared with a sorted-distance "
           "reference.", engine="explorer-B"),
 "C13": _e("bounded-exhaustive exploration of both density fits over lattice / generic / graph / squeezed-density "
           "families, density plateaus of 6..32 samples and all k ranges, with the validation criterion scripted to select every k; forest invariants "
           "on the final state, adjacency snapshots through outside seams, k-NN radius recomputed independently",
           "All lattice sequences (heavy ties), generic arrangements, pre-computed graphs and gap-sequence sets with "
           "an outlier x all k ranges x every selectable k: every clause of the statement is evaluated on the real "
           "final state."),
 "C14": _e("bounded-exhaustive exploration of (fitted model, query, batch position) against the exhaustive k-nearest "
           "max-min rule with every valid tie choice",
           "Every model of the lattice families (every k also forced) x every query (training copies, midpoints, "
           "far, and the critical points where the reference's answer changes, located by bisection; six generic samples with one class per sample; a semimetric) x every batch position 0..n, plus a 1e-11-scaled family; membership in the set of outcomes allowed "
           "by the exhaustive rule."),
 "C15": _e("bounded-exhaustive exploration of SemiSupervisedOPF.fit over all graphs on labeled+unlabeled nodes, "
           "minimax reference + differential vs SupervisedOPF",
           "Every graph on n_l+n_u <= 6 nodes over the weight alphabet x every labeling, lattice sequences, int64 "
           "labeled matrices and index arrays without pre-computed distances: full-graph minimax reference, "
           "labeled-MST prototype family, state identity with SupervisedOPF when n_u = 0, chains of 3..30 unlabeled samples and every spelling of an empty unlabeled set."),
 "C16": _e("stateless choice exploration: every criterion answer sequence scripted through the intercepted accuracy / "
           "cut routine (also on previously used instances); plus recorded natural criterion values",
           "All answer sequences over the criterion alphabets (with near-tie and tiny positive values) for every k "
           "range up to 4 on fresh and on previously fitted instances, k ranges up to 9 and 12 on larger sets, and all lattice training/validation sets "
           "with the real criterion recorded; oracle = smallest best candidate and final model built with it; every natural criterion value recomputed from its definition (validation accuracy; normalised cut, also against a model restricted to that k).",
           engine="explorer-D"),
 "C17": _e("stateless choice exploration of every RNG answer sequence of SupervisedOPF.learn by prefix replay (also "
           "with the accuracy scripted); bounded-exhaustive exploration of predict marking and prune runs",
           "All 648 tiny learn configurations over every sequence of answers of the intercepted random draw, plus "
           "every accuracy script over {0, 0.5, 1}; relevance marking against every choice of exhaustive minimisers "
           "on all forests of the C03 families incl. zero weights, on chains of 5..40 samples over two passes on one object and with accuracies closer than the stopping tolerance; prune re-fit sets against the flags on 1-D and "
           "2-D lattice arrangements.", engine="explorer-D"),
 "C18": _e("stateless choice exploration: every permutation answer of the intercepted numpy permutation in split; "
           "bounded-exhaustive exploration of all small OPF binary datasets through the converters/loaders/parser",
           "split/split_with_index/merge for every permutation the RNG could return (n<=5), every percentage and "
           "label pattern; all small datasets (ids up to 2**31-1) written as OPF binaries and taken through "
           "opf2txt/csv/json, the loaders, the parser and Subgraph(from_file), re-using the same paths; file names with further dots; files of 4 097..16 400 samples; negative labels.",
           engine="explorer-D"),
 "C19": _e("explicit enumeration of all enabled save/load/predict operation sequences (prefix replay) for every kind "
           "x metric x distance mode, field-by-field state comparison",
           "Every enabled sequence of {save, load into a fresh object built with another metric, predict original, "
           "predict loaded, save loaded} up to depth 3 (4) for 4 kinds x 47 metrics (x pre-computed mode), depth 5 "
           "(6) for the default metric, all saves to one path; the original's full state hashed around save, the "
           "loaded state compared field by field, predictions compared; distance file rewritten between save and load; dotted file names; receivers constructed with their own distance file; Fortran-ordered 24-d permutation twins; separate-interpreter load.",
           engine="explorer-B"),
 "C20": _e("bounded-exhaustive enumeration of all (labels, predictions) vectors and small matrices against exact "
           "rational definitions; dtype x class-count sweep; in-place two-call histories",
           "All label/prediction pairs with K<=3 (4), length<=5 (6) in list and array form, K up to 300 in six "
           "integer dtypes, histories in which the caller overwrites its label array, and all small matrices incl. "
           "ill-conditioned and tiny-magnitude columns: every measure is compared with the statement's definition in Fraction "
           "arithmetic."),
}
NOT_APPLICABLE = {}
