#!/bin/bash
# tools/run_all.sh [tier]  -- run every registered check once, print the summary lines
cd "$(dirname "$(readlink -f "$0")")/.." || exit 2
tier=${1:-quick}; rc=0
for i in $(seq -w 1 20); do
  out=$(./check C$i --tier "$tier" 2>&1); e=$?
  echo "$out" | grep -E "VIOLATION|KNOWN-FINDING|HARNESS" | head -5
  echo "$out" | tail -1 | cut -c1-260
  [ $e -ne 0 ] && { echo "  ^^^ exit=$e"; rc=1; }
done
exit $rc
