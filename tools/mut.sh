#!/bin/bash
# tools/mut.sh <patch-file> <Cxx> [<Cxx>...]   -- apply a patch to a scratch worktree of /repo,
# run the pinned test-suite there, then the given quick checks against it; remove the worktree.
# env: SKIP_TESTS=1 skips the pinned suite; TIER=quick|thorough
set -u
patch=$(readlink -f "$1"); shift
wt=/var/tmp/opf-mut-$$
git -C /repo worktree add -f --detach "$wt" HEAD >/dev/null 2>&1 || { echo "worktree failed"; exit 2; }
trap 'git -C /repo worktree remove --force "$wt" >/dev/null 2>&1; rm -rf "$wt"' EXIT
if ! git -C "$wt" apply "$patch"; then echo "PATCH DOES NOT APPLY"; exit 2; fi
if [ -z "${SKIP_TESTS:-}" ]; then
  (cd "$wt" && /venv/bin/python -m pytest -q -p no:cacheprovider --timeout=900 -x -q \
      --deselect tests/opfython/models/test_supervised.py::test_supervised_opf_learn 2>&1 | tail -3)
fi
for c in "$@"; do
  VERIF_REPO="$wt" /verif/check "$c" --tier "${TIER:-quick}" 2>&1 | grep -E "VIOLATION|KNOWN|HARNESS|^C[0-9]+ " | head -8
  echo "exit=${PIPESTATUS[0]}"
done
