#!/usr/bin/env python3
"""tools/sweep_report.py  -- summarise mutants/sweep.jsonl into mutants/SWEEP.md.
Survivors are listed with the triage recorded in mutants/sweep_triage.json (id -> reason);
a survivor without an entry is printed as UNTRIAGED."""
import collections
import json
import os

VERIF = os.path.dirname(os.path.dirname(os.path.abspath(__file__)))
SRC = os.path.join(VERIF, "mutants", "sweep.jsonl")
TRIAGE = os.path.join(VERIF, "mutants", "sweep_triage.json")
OUT = os.path.join(VERIF, "mutants", "SWEEP.md")


_SRC = {}


def _src(f):
    if f not in _SRC:
        _SRC[f] = open(os.path.join(os.environ.get("VERIF_REPO", "/repo"), f)).read().split("\n")
    return _SRC[f]


def main():
    recs = {}
    for l in open(SRC):
        try:
            r = json.loads(l)
        except Exception:
            continue
        try:
            cur = _src(r["file"])[r["line"] - 1].strip()
        except Exception:
            cur = None
        if cur != r["old"]:
            continue               # recorded against an earlier revision of the file (lines moved since)
        recs[r["id"]] = r          # a later run of the same mutant replaces the earlier one
    triage = json.load(open(TRIAGE)) if os.path.exists(TRIAGE) else {}
    per = collections.defaultdict(collections.Counter)
    by = collections.Counter()
    for r in recs.values():
        per[r["file"]][r["status"]] += 1
        if r["status"] == "caught":
            by[r["by"]] += 1
    lines = ["# Systematic single-token mutation sweep", "",
             "Produced by `tools/mutation_sweep.py` (operators: comparison flips, arithmetic swaps, and/or, "
             "constants 0/1/2 +-1, min/max and colour / status constant swaps, dropped `not` / unary minus, "
             "`+=`/`-=`, single assignments and `break`/`continue` replaced by `pass`). A mutant the pinned "
             "test-suite kills is of no interest; the others are run against the quick checks mapped to the file "
             "until one prints a VIOLATION line.", "",
             "| file | mutants | killed by the pinned suite | caught by a check | survived |", "|---|---|---|---|---|"]
    tot = collections.Counter()
    for f in sorted(per):
        c = per[f]
        n = sum(c.values())
        lines.append("| %s | %d | %d | %d | %d |" % (f, n, c["killed-by-suite"], c["caught"], c["survived"]))
        tot.update(c)
    lines.append("| **total** | %d | %d | %d | %d |" % (sum(tot.values()), tot["killed-by-suite"], tot["caught"],
                                                        tot["survived"]))
    lines += ["", "Caught by: " + ", ".join("%s %d" % kv for kv in sorted(by.items())), "",
              "## Survivors", "",
              "Every survivor was read; it is either equivalent with respect to the listed properties (the reason is "
              "given) or led to a strengthened check (then it no longer survives a re-run).", "",
              "| mutant | edit | verdict |", "|---|---|---|"]
    untriaged = 0
    for r in sorted(recs.values(), key=lambda r: (r["file"], r["line"])):
        if r["status"] != "survived":
            continue
        why = None
        for k, v in triage.items():
            if r["id"].startswith(k):
                why = v
        if why is None:
            why = "UNTRIAGED"
            untriaged += 1
        lines.append("| %s:%d | `%s` -> `%s` | %s |" % (r["file"].replace("opfython/", ""), r["line"],
                                                        r["old"][:60].replace("|", "\\|"),
                                                        r["new"][:60].replace("|", "\\|"), why))
    open(OUT, "w").write("\n".join(lines) + "\n")
    print("mutants=%d killed-by-suite=%d caught=%d survived=%d untriaged=%d"
          % (sum(tot.values()), tot["killed-by-suite"], tot["caught"], tot["survived"], untriaged))


if __name__ == "__main__":
    main()
