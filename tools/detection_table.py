#!/usr/bin/env python3
"""Generates seeded/README.md from seeded/*/meta.json."""
import glob, json, os
VERIF = os.path.dirname(os.path.dirname(os.path.abspath(__file__)))
rows = []
for mp in sorted(glob.glob(os.path.join(VERIF, "seeded", "*", "meta.json"))):
    m = json.load(open(mp))
    d = os.path.basename(os.path.dirname(mp))
    suite = next((r for r in m["ran"] if r["cmd"].startswith("pinned")), {})
    demo = next((r for r in m["ran"] if r["cmd"] == "demo with the change"), {})
    first = ""
    for c in m.get("detected_by", []):
        first = m["checks"][c].get("first", "")[2:140]
        break
    needs = m.get("needs", "")
    rows.append((d, m["property"], "%s passed / %s failed" % (suite.get("passed"), suite.get("failed")),
                 "exit %s" % demo.get("exit"), ", ".join(m.get("detected_by", [])) or "**none**",
                 ", ".join("%s:%ss" % (c, r["wall_s"]) for c, r in m["checks"].items()), first.replace("|", "/")))
with open(os.path.join(VERIF, "seeded", "README.md"), "w") as f:
    f.write("# Independently seeded property-breaking changes\n\n"
            "Each directory holds one change produced by a sub-agent that saw only the text of one property\n"
            "and its own scratch worktree (nothing from /verif): `patch.diff`, the agent's `demo.py`\n"
            "(passes on the unmodified tree, fails with the change), its `NOTES.md` (what the change needs in\n"
            "order to manifest) and `meta.json` (what we ran: demo without/with the change, pinned suite with\n"
            "the change, our quick checks with `VERIF_REPO` pointing at the patched worktree).\n\n"
            "| change | property | pinned suite with the change | agent's demo with the change | caught by | check time | first violation reported |\n"
            "|---|---|---|---|---|---|---|\n")
    for r in rows:
        f.write("| %s | %s | %s | %s | %s | %s | %s |\n" % r)
    n = len(rows)
    c = sum(1 for r in rows if not r[4].startswith("**"))
    f.write("\n%d changes kept, %d caught by the owning property's quick check.\n" % (n, c))
print(len(rows), "rows")
