#!/usr/bin/env python3
"""tools/seed_eval.py <seed-dir> <label> <property-id> [--checks C01,C03 | --all] [--tier quick]

Confirms a property-breaking change produced by an independent sub-agent and
runs our checks against it, everything in a scratch worktree outside /repo and
/verif:
  1. demo passes on the unmodified tree,
  2. the patch applies, the pinned suite still passes with it,
  3. the demo fails with it,
  4. the listed checks (default: the owning property) are run with VERIF_REPO
     pointing at the patched worktree.
The change is kept as /verif/seeded/<id>-<label>/ (patch.diff, demo.py, meta.json)
only if 1-3 hold.  The worktree is removed afterwards."""
import json
import os
import re
import shutil
import subprocess
import sys
import time

VERIF = os.path.dirname(os.path.dirname(os.path.abspath(__file__)))
PY = "/venv/bin/python"
# VERIF_SNAP=<dir>: run the checks from a snapshot (git worktree of /verif HEAD) so that /verif/mc
# can be edited while a long evaluation is running; results still go to /verif/seeded
CHECK_HOME = os.environ.get("VERIF_SNAP") or VERIF


def sh(cmd, cwd=None, env=None, timeout=3600):
    e = dict(os.environ)
    if env:
        e.update(env)
    r = subprocess.run(cmd, shell=True, cwd=cwd, env=e, capture_output=True, text=True, timeout=timeout)
    return r.returncode, (r.stdout + r.stderr)


def main():
    args = sys.argv[1:]
    seed_dir, label, pid = args[0], args[1], args[2]
    checks = [pid]
    tier = "quick"
    if "--checks" in args:
        checks = args[args.index("--checks") + 1].split(",")
    if "--all" in args:
        checks = ["C%02d" % i for i in range(1, 21)]
    if "--tier" in args:
        tier = args[args.index("--tier") + 1]
    patch = os.path.join(seed_dir, "patch_%s.diff" % label)
    demo = os.path.join(seed_dir, "demo_%s.py" % label)
    for f in (patch, demo):
        if not os.path.exists(f):
            print("missing", f)
            return 2
    # the sub-agent's own scratch worktree is used (its demos assert that path); it is a
    # worktree of /repo outside /repo and /verif, reset to the unmodified tree first
    wt = os.path.abspath(seed_dir)
    sh("git checkout -- opfython", cwd=wt)
    head = sh("git rev-parse --short HEAD", cwd=wt)[1].strip()
    repo_head = sh("git -C /repo rev-parse --short HEAD")[1].strip()
    if head != repo_head:
        sh("git checkout --detach %s" % repo_head, cwd=wt)
    meta = {"property": pid, "label": label, "source": "independent sub-agent (given only the property text)",
            "evaluated_at_repo_commit": sh("git -C /repo rev-parse --short HEAD")[1].strip(),
            "ran": []}
    try:
        env = {"PYTHONPATH": wt}
        demo_name = os.path.basename(demo)
        rc0, out0 = sh("%s %s" % (PY, demo_name), cwd=wt, env=env)
        meta["ran"].append({"cmd": "demo on unmodified tree", "exit": rc0})
        rca, outa = sh("git apply %s" % patch, cwd=wt)
        if rca != 0:
            # /repo moved on (a later fix: commit touched the same file): merge the change in
            rca, outa = sh("git apply --3way %s && git reset -q" % patch, cwd=wt)
            meta["ran"].append({"cmd": "patch applied with --3way onto the newer /repo HEAD", "exit": rca})
        if rca != 0:
            print("PATCH DOES NOT APPLY:", outa[-500:])
            return 2
        rct, outt = sh("%s -m pytest -q -p no:cacheprovider --timeout=900 2>&1 | tail -3" % PY, cwd=wt, env=env)
        m = re.search(r"(\d+) passed", outt)
        failed = re.search(r"(\d+) failed", outt)
        meta["ran"].append({"cmd": "pinned suite with the change", "passed": int(m.group(1)) if m else 0,
                            "failed": int(failed.group(1)) if failed else 0})
        rc1, out1 = sh("%s %s" % (PY, demo_name), cwd=wt, env=env)
        meta["ran"].append({"cmd": "demo with the change", "exit": rc1, "tail": out1.strip()[-400:]})
        ok = rc0 == 0 and rc1 != 0 and m and int(m.group(1)) >= 181 and not failed
        meta["confirmed"] = bool(ok)
        print("demo clean exit=%d, with change exit=%d, suite: %s" % (rc0, rc1, outt.strip().splitlines()[-1] if outt.strip() else "?"))
        if not ok:
            print("NOT CONFIRMED (kept out of /verif/seeded)")
            print(out0[-300:] if rc0 else "", out1[-300:])
        results = {}
        for c in checks:
            t0 = time.time()
            rc, out = sh("%s/check %s --tier %s" % (CHECK_HOME, c, tier), cwd=CHECK_HOME, env={"VERIF_REPO": wt})
            vio = [l for l in out.splitlines() if l.startswith("VIOLATION")]
            expl = [l for l in out.splitlines() if l.startswith("# ")]
            results[c] = {"exit": rc, "violations": len(vio), "wall_s": round(time.time() - t0, 1),
                          "first": (expl[0][:300] if expl else "")}
            print("  check %s: exit=%d violations=%d %.0fs %s" % (c, rc, len(vio), time.time() - t0,
                                                                  expl[0][:200] if expl else ""))
        meta["checks"] = results
        meta["detected_by"] = sorted(c for c, r in results.items() if r["exit"] == 1 and r.get("violations"))
        if ok:
            out_dir = os.path.join(VERIF, "seeded", "%s-%s" % (pid, label))
            os.makedirs(out_dir, exist_ok=True)
            shutil.copy(patch, os.path.join(out_dir, "patch.diff"))
            shutil.copy(demo, os.path.join(out_dir, "demo.py"))
            notes = os.path.join(seed_dir, "NOTES.md")
            if os.path.exists(notes):
                shutil.copy(notes, os.path.join(out_dir, "NOTES.md"))
            old = {}
            mp = os.path.join(out_dir, "meta.json")
            if os.path.exists(mp):
                old = json.load(open(mp))
                # accumulate check results across evaluations
                oc = old.get("checks", {})
                oc.update(results)
                meta["checks"] = oc
                meta["detected_by"] = sorted(c for c, r in oc.items() if r["exit"] == 1 and r.get("violations"))
                if "needs" in old:
                    meta["needs"] = old["needs"]
            json.dump(meta, open(mp, "w"), indent=1)
        return 0
    finally:
        sh("git checkout -- opfython", cwd=wt)
        sh("git clean -fdq -- opfython", cwd=wt)
    return 0


if __name__ == "__main__":
    sys.exit(main())
