"""Shared harness for the supervised block (C01, C02, C03, C04, C11, C15):
run the real SupervisedOPF / SemiSupervisedOPF on a literal program and
observe the forest through public attributes."""
import numpy as np

NIL = -1
PROTOTYPE = 1


def models():
    from opfython.models import SupervisedOPF, SemiSupervisedOPF
    return {"SupervisedOPF": SupervisedOPF, "SemiSupervisedOPF": SemiSupervisedOPF}


_CACHE = {}
_ORDER = []          # keys of the cached model objects in the order they were constructed
_LAST = [None]       # key of the object constructed most recently (cached or not)
_BYSTANDERS = []


def construction_history():
    """Which model objects this process has constructed and keeps alive, in order, plus the most
    recently constructed one if it is not among them: part of the history of a case, recorded with
    a violation so that a replay can re-create it."""
    h = [list(k) + [True] for k in _ORDER]
    if _LAST[0] is not None and (not _ORDER or _LAST[0] != ("cached", _ORDER[-1])):
        if _LAST[0][0] == "fresh":
            h.append(list(_LAST[0][1]) + [False])
    return h


def rebuild_history(entries):
    """Fresh process / replay: construct the objects again in the recorded order."""
    _CACHE.clear()
    del _ORDER[:]
    del _BYSTANDERS[:]
    for e in entries:
        key, cached = tuple(e[:3]), (e[3] if len(e) > 3 else True)
        if cached:
            get_model(*key)
        else:
            _BYSTANDERS.append(fresh_model(*key))


def get_model(kind, metric=None, pre=False):
    """Model objects are re-used across cases (every fit runs on a used
    object); fit() rebuilds the subgraph."""
    key = (kind, metric, pre)
    m = _CACHE.get(key)
    if m is None:
        cls = models()[kind]
        m = cls(distance=metric) if metric else cls()
        if pre:
            m.pre_computed_distance = True
        _CACHE[key] = m
        _ORDER.append(key)
        _LAST[0] = ("cached", key)
    return m


def fresh_model(kind, metric=None, pre=False):
    cls = models()[kind]
    m = cls(distance=metric) if metric else cls()
    if pre:
        m.pre_computed_distance = True
    _LAST[0] = ("fresh", (kind, metric, pre))
    return m


def cache_key(prog):
    return (prog["model"], None if prog["mode"] == "pre" else prog["metric"], prog["mode"] == "pre")


def replay_with_history(run_case, prog):
    """Replays a recorded program.  Model objects are re-used across cases during exploration
    (every fit runs on a used object); a violation therefore records the program that ran on the
    same object just before ("previous"), and the replay re-creates that one-step history on a
    fresh object."""
    prev = prog.get("previous")
    built = prog.get("constructed_before")
    cur = {k: v for k, v in prog.items() if k not in ("previous", "constructed_before")}
    if cur["model"] not in ("SupervisedOPF", "SemiSupervisedOPF") or (prev is None and not built):
        return run_case(cur)
    kind, metric, pre = cache_key(cur)
    if built:
        # the objects this process had constructed, in the same order; the one under test among them
        rebuild_history(built)
        m = get_model(kind, metric, pre)
    else:
        m = fresh_model(kind, metric, pre)
    if prev is not None:
        try:
            run_case(prev, None, m)
        except Exception:
            pass
    v = run_case(cur, None, m)
    if v is not None:
        v["program"] = dict(prog)
    return v


def with_history(v, prev):
    """Attach the one-step object history and the construction history to a violation."""
    p = dict(v["program"])
    if prev is not None and "previous" not in p:
        p["previous"] = prev
    if len(construction_history()) > 1 and "constructed_before" not in p:
        p["constructed_before"] = construction_history()
    v["program"] = p
    return v


LAST_FAULT_CALLS = [0]


def crash_cases(prev, cur):
    """Crash-point enumeration: programs `cur` carrying, as one-step history, the program `prev`
    interrupted at every one of its injection points (each metric call / matrix access)."""
    from mc.faults import InjectedFault  # noqa
    kind, metric, pre = cache_key(prev)
    m = fresh_model(kind, metric, pre)
    p0 = dict(prev, fault_at="count")
    try:
        fit_program(p0, model=m)
    except Exception:
        return
    for k in range(1, LAST_FAULT_CALLS[0] + 1):
        yield dict(cur, previous=dict(prev, fault_at=k))


def fit_program(prog, fresh=False, model=None):
    """prog: {"model", "mode": "pre"|"features", "W"|("X","metric"), "labels",
    "n_unlabeled"(semi)}.  In mode "pre" nodes are addressed by I_train =
    prog.get("I_train", 0..n_l-1) into W; unlabeled node i is addressed as
    n_l + i (the library's convention).  Returns (model, Wd) where Wd[p][q] is
    the weight the implementation sees for the arc p -> q between subgraph
    positions."""
    kind = prog["model"]
    lab = np.array(prog["labels"], dtype=int)
    nl = len(lab)
    nu = int(prog.get("n_unlabeled", 0))
    mk = fresh_model if fresh else get_model
    if model is not None:
        def mk(*a):  # noqa: E306  (the caller supplies the - possibly used - object)
            return model
    fault = prog.get("fault_at")
    if prog["mode"] == "pre":
        W = np.array(prog["W"], dtype=np.dtype(prog.get("matrix_dtype", "float64")))
        m = mk(kind, None, True)
        if prog.get("set_flag"):
            # the object's configuration is switched through its public property (it may have been
            # constructed, and used, for the other mode)
            m.pre_computed_distance = True
        m.pre_distances = W
        if fault is not None:
            from mc.faults import FaultyMatrix
            m.pre_distances = FaultyMatrix(W, None if fault == "count" else int(fault))
        I = np.array(prog.get("I_train", list(range(nl))), dtype=int)
        X = np.zeros((nl, 1))
        try:
            if kind == "SemiSupervisedOPF":
                m.fit(X, lab, np.zeros((nu, 1)), I_train=I)
            else:
                m.fit(X, lab, I_train=I)
        finally:
            if fault is not None:
                LAST_FAULT_CALLS[0] = m.pre_distances._calls
                m.pre_distances = W
        idx = [int(i) for i in I] + [nl + i for i in range(nu)]
        if W.dtype.kind == "i":
            Wd = [[int(W[a][b]) for b in idx] for a in idx]      # exact integers (may exceed 2**53)
        else:
            Wd = [[float(W[a][b]) for b in idx] for a in idx]
    else:
        X = np.array(prog["X"], dtype=float)
        m = mk(kind, prog["metric"], False)
        if prog.get("set_flag"):
            m.pre_computed_distance = False       # a matrix set earlier stays where it is
        Xl = X[:nl].copy()
        if prog.get("labeled_dtype"):
            # the labeled matrix arrives in another dtype (its values are representable in it)
            Xl = Xl.astype(np.dtype(prog["labeled_dtype"]))
        lay = prog.get("layout")
        Xu = X[nl:nl + nu].copy()
        if nu == 0 and prog.get("empty_as"):
            # the empty unlabeled set spelt the way a caller might spell it
            Xu = {"list": [], "tuple": (), "array1d": np.array([]),
                  "empty2d": np.empty((0, X.shape[1]))}[prog["empty_as"]]
        if lay:
            # the same values handed over in another memory layout (Fortran order, transposed view, strided view)
            from mc import layout as LY
            Xl = LY.apply(Xl, lay).astype(Xl.dtype, copy=False) if prog.get("labeled_dtype") else LY.apply(Xl, lay)
            Xu = LY.apply(Xu, lay) if len(Xu) else Xu
        kw = {}
        if prog.get("I_train") is not None:
            # index arrays may be passed without pre-computed distances too
            kw["I_train"] = np.array(prog["I_train"], dtype=int)
        orig_fn = m.distance_fn
        if fault is not None:
            from mc.faults import FaultyFn
            m.distance_fn = FaultyFn(orig_fn, None if fault == "count" else int(fault))
        try:
            if kind == "SemiSupervisedOPF":
                m.fit(Xl, lab, Xu, **kw)
            else:
                m.fit(Xl, lab, **kw)
        finally:
            if fault is not None:
                LAST_FAULT_CALLS[0] = m.distance_fn.calls
                m.distance_fn = orig_fn
        fn = m.distance_fn
        n = nl + nu
        Wd = [[float(fn(X[a].copy(), X[b].copy())) if a != b else 0.0 for b in range(n)]
              for a in range(n)]
    return m, Wd


def observe(m):
    sg = m.subgraph
    nodes = []
    for nd in sg.nodes:
        nodes.append({
            "cost": float(nd.cost), "pred": int(nd.pred),
            "plabel": int(nd.predicted_label), "label": int(nd.label),
            "status": int(nd.status),
        })
    return {"nodes": nodes, "idx_nodes": [int(i) for i in sg.idx_nodes],
            "trained": bool(sg.trained)}


def forest_problem(Wd, true_labels, n_labeled, obs, oracle_costs):
    """C01 / C15 oracle on an observed forest.  true_labels are the labels the
    caller supplied for the labeled nodes.  Returns (problem, symptom) or
    (None, None)."""
    nodes = obs["nodes"]
    n = len(Wd)
    if len(nodes) != n:
        return "subgraph has %d nodes, %d samples were given" % (len(nodes), n), "node count"
    S = frozenset(i for i in range(n) if nodes[i]["status"] == PROTOTYPE)
    if not S:
        return "no prototype was selected", "no prototypes"
    if any(s >= n_labeled for s in S):
        return "an unlabeled sample %s is flagged prototype" % sorted(S), "unlabeled prototype"
    V = oracle_costs(Wd, S)
    for t in range(n):
        nd = nodes[t]
        if t in S:
            if nd["cost"] != 0.0 or nd["pred"] != NIL or nd["plabel"] != true_labels[t]:
                return ("prototype %d has cost %r, pred %d, assigned label %d (true label %d)"
                        % (t, nd["cost"], nd["pred"], nd["plabel"], true_labels[t])), "prototype state"
        if nd["cost"] != V[t]:
            return ("sample %d has cost %r but the optimum max-arc path cost from the "
                    "prototypes %s is %r" % (t, nd["cost"], sorted(S), V[t])), "cost not optimal"
        j, steps = t, 0
        while nodes[j]["pred"] != NIL and steps <= n:
            p = nodes[j]["pred"]
            if not (0 <= p < n):
                return "sample %d has predecessor %d outside the graph" % (j, p), "pred range"
            want = max(nodes[p]["cost"], Wd[p][j])
            if nodes[j]["cost"] != want:
                return ("link %d -> %d: cost(child) = %r but max(cost(parent), d) = %r"
                        % (p, j, nodes[j]["cost"], want)), "link cost"
            j = p
            steps += 1
        if steps > n:
            return "predecessor links from sample %d cycle" % t, "pred cycle"
        if j not in S:
            return ("predecessor links from sample %d end in %d which is not a prototype"
                    % (t, j)), "root not prototype"
        if nd["plabel"] != true_labels[j]:
            return ("sample %d carries label %d but the prototype %d at the root of its "
                    "path has true label %d" % (t, nd["plabel"], j, true_labels[j])), "label not root's"
    order = obs["idx_nodes"]
    if sorted(order) != list(range(n)):
        return "conquest order %s is not a permutation of all %d samples" % (order, n), "order not permutation"
    for a in range(n - 1):
        if nodes[order[a]]["cost"] > nodes[order[a + 1]]["cost"]:
            return "conquest order %s is not in non-decreasing cost" % (order,), "order not sorted"
    if not obs["trained"]:
        return "subgraph not flagged trained after fit", "not trained"
    return None, None
