"""Finite input alphabets for explorer E.  Everything here is a complete
enumeration of an explicitly defined space; the seed only chooses the numeric
embedding (rank -> value table, class renaming, lattice scale)."""
import itertools
import random


# --------------------------------------------------------------------------
# labelings up to class renaming (restricted growth strings), >= min_classes
# --------------------------------------------------------------------------
def labelings(n, min_classes=2, max_classes=None):
    out = []

    def rec(prefix, mx):
        if len(prefix) == n:
            if mx + 1 >= min_classes:
                out.append(tuple(prefix))
            return
        for v in range(mx + 2):
            if max_classes is not None and v >= max_classes:
                break
            rec(prefix + [v], max(mx, v))

    if n == 0:
        return [()] if min_classes <= 0 else []
    rec([0], 0)
    return out


def rename_classes(lab, seed):
    """Seed-chosen bijective renaming of class ids onto 0..K-1 (labels are
    only compared for equality, so this must not matter; seed 0 = identity)."""
    k = max(lab) + 1 if lab else 0
    perm = list(range(k))
    if seed:
        random.Random(77 + seed).shuffle(perm)
    return tuple(perm[v] for v in lab)


def spread_classes(lab):
    """Class ids that are neither small nor consecutive (labels are only compared for equality):
    0 -> 3, 1 -> 1000, 2 -> 257, 3 -> 70000, ..."""
    table = [3, 1000, 257, 70000, 12, 65536]
    return tuple(table[v] for v in lab)


# --------------------------------------------------------------------------
# weighted complete graphs
# --------------------------------------------------------------------------
def edges(n):
    return list(itertools.combinations(range(n), 2))


def n_graphs(n, m):
    return m ** (n * (n - 1) // 2)


def graph_ranks(n, m, index):
    """index-th element of G(n, m): rank (0..m-1) per edge, base-m digits."""
    ne = n * (n - 1) // 2
    r = []
    for _ in range(ne):
        r.append(index % m)
        index //= m
    return tuple(r)


def weak_orders(ne):
    """One rank vector per weak ordering of ne items (ranks are surjective
    onto 0..max)."""
    out = []
    for r in itertools.product(range(ne), repeat=ne):
        mx = max(r)
        if len(set(r)) == mx + 1:
            out.append(r)
    return out


def strict_orders(ne):
    return list(itertools.permutations(range(ne)))


def value_table(seed, m, zero=False):
    """Strictly increasing table rank -> weight.  seed 0: 1..m (or 0..m-1)."""
    if seed == 0:
        return [float(i + (0 if zero else 1)) for i in range(m)]
    rnd = random.Random(4242 + seed * 31 + m)
    vals = set()
    while len(vals) < m:
        kind = rnd.randint(0, 3)
        if kind == 0:
            v = float(rnd.randint(1, 50))
        elif kind == 1:
            v = rnd.uniform(0.001, 1.0)
        elif kind == 2:
            v = rnd.uniform(1.0, 1e5)
        else:
            v = rnd.randint(1, 1000) / 8.0
        vals.add(v)
    vals = sorted(vals)
    if zero:
        vals[0] = 0.0
    return vals


def matrix_from_ranks(n, ranks, table):
    import numpy as np

    W = np.zeros((n, n))
    for (a, b), r in zip(edges(n), ranks):
        W[a, b] = W[b, a] = table[r]
    return W


# --------------------------------------------------------------------------
# point sequences over a lattice
# --------------------------------------------------------------------------
LATTICE_1D = [(0.0,), (1.0,), (2.0,), (3.0,)]
LATTICE_2D = [(float(a), float(b)) for a in range(3) for b in range(3)]


def lattice(kind, seed, positive=False):
    base = LATTICE_1D if kind == "1d" else LATTICE_2D
    scale, off = 1.0, 0.0
    if seed:
        rnd = random.Random(9000 + seed)
        scale = rnd.choice([0.5, 2.0, 3.0, 0.25, 10.0])
        off = rnd.choice([0.0, 1.0, -1.0, 0.5])
    if positive:
        off = abs(off) + 1.0
    return [tuple(scale * v + off for v in p) for p in base]


def sequences(points, n):
    """All length-n sequences (every order, duplicates included)."""
    return itertools.product(range(len(points)), repeat=n)


def n_sequences(npoints, n):
    return npoints ** n


def sequence_at(npoints, n, index):
    s = []
    for _ in range(n):
        s.append(index % npoints)
        index //= npoints
    return tuple(s)


def chunks(total, size):
    return [(a, min(total, a + size)) for a in range(0, total, size)]
