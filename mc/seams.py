"""Outside-in interception of the library's internal decision points.  The
library looks every callee up through a module / class attribute at call
time, so nothing in the repository needs to change."""
import contextlib


@contextlib.contextmanager
def patched(obj, name, new):
    old = getattr(obj, name)
    setattr(obj, name, new)
    try:
        yield old
    finally:
        setattr(obj, name, old)


@contextlib.contextmanager
def record_calls(obj, name, log, snapshot=None, tag=None):
    """Wrap obj.name so that every call appends (tag or name, args[1:], extra)
    to log; snapshot(self_or_first_arg) is evaluated BEFORE the call."""
    old = getattr(obj, name)

    def wrapper(*a, **kw):
        extra = snapshot(a[0]) if (snapshot and a) else None
        entry = {"call": tag or name, "args": a[1:], "kwargs": kw, "pre": extra}
        log.append(entry)
        ret = old(*a, **kw)
        entry["ret"] = ret
        return ret

    setattr(obj, name, wrapper)
    try:
        yield
    finally:
        setattr(obj, name, old)


class ScriptExhausted(Exception):
    pass


class Chooser:
    """Serves scripted answers for an intercepted nondeterministic call and
    records every choice point (its number of alternatives).  Used by
    explorer D (prefix replay)."""

    def __init__(self, script=(), default=0):
        self.script = list(script)
        self.points = []   # (n_alternatives, chosen)
        self.default = default

    def choose(self, n_alt):
        i = len(self.points)
        if i < len(self.script):
            c = self.script[i]
            if not (0 <= c < n_alt):
                raise ScriptExhausted("scripted choice %r out of range %d at point %d" % (c, n_alt, i))
        else:
            c = self.default if self.default < n_alt else 0
        self.points.append((n_alt, c))
        return c
