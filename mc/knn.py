"""Shared harness for the density block (C04-knn, C09, C12, C13, C14, C16):
run the real KNNSupervisedOPF / UnsupervisedOPF on a literal program."""
import numpy as np

_CACHE = {}


def classes():
    from opfython.models import KNNSupervisedOPF, UnsupervisedOPF
    return {"KNNSupervisedOPF": KNNSupervisedOPF, "UnsupervisedOPF": UnsupervisedOPF}


def make(prog, fresh=True):
    kind = prog["model"]
    cls = classes()[kind]
    metric = prog.get("metric") or "log_squared_euclidean"
    if kind == "KNNSupervisedOPF":
        m = cls(max_k=int(prog["max_k"]), distance=metric)
    else:
        m = cls(min_k=int(prog["min_k"]), max_k=int(prog["max_k"]), distance=metric)
    if prog["mode"] == "pre":
        m.pre_computed_distance = True
        m.pre_distances = np.array(prog["W"], dtype=float)
    return m


def reconfigure(m, prog):
    """Point an existing (possibly already fitted) model object at a new program."""
    import opfython.math.distance as D
    metric = prog.get("metric") or "log_squared_euclidean"
    m.distance = metric
    m.distance_fn = D.DISTANCES[metric]
    if prog["model"] == "KNNSupervisedOPF":
        m.max_k = int(prog["max_k"])
    else:
        m.min_k = 1
        m.max_k = int(prog["max_k"])
        m.min_k = int(prog["min_k"])
    if prog["mode"] == "pre":
        m.pre_computed_distance = True
        m.pre_distances = np.array(prog["W"], dtype=float)
    else:
        m.pre_computed_distance = False
        m.pre_distances = None
    return m


def fit_program(prog, model=None):
    """prog: {"model", "mode": "pre"|"features", "W" | ("X", "metric"), "labels",
    "max_k", ["min_k"], KNN: "val": {"X"|"I", "labels"}}.  In pre mode training
    nodes are rows prog.get("I_train", 0..n-1) of W.  With model=<object> the same
    (already used) instance is fitted again."""
    m = make(prog) if model is None else reconfigure(model, prog)
    lab = np.array(prog["labels"], dtype=int)
    n = len(lab)
    if prog["mode"] == "pre":
        I = np.array(prog.get("I_train", list(range(n))), dtype=int)
        X = np.zeros((n, 1))
        if prog["model"] == "KNNSupervisedOPF":
            v = prog["val"]
            Iv = np.array(v["I"], dtype=int)
            m.fit(X, lab, np.zeros((len(Iv), 1)), np.array(v["labels"], dtype=int),
                  I_train=I, I_val=Iv)
        else:
            m.fit(X, lab, I_train=I)
    else:
        X = np.array(prog["X"], dtype=float)
        Xt = X.copy()
        if prog.get("layout"):
            from mc import layout as LY
            Xt = LY.apply(Xt, prog["layout"])
        if prog["model"] == "KNNSupervisedOPF":
            v = prog["val"]
            if prog.get("alias_val"):
                # the caller passes the very same objects as training and validation set
                m.fit(Xt, lab, Xt, lab)
            else:
                m.fit(Xt, lab, np.array(v["X"], dtype=float), np.array(v["labels"], dtype=int))
        elif prog.get("I_train") is not None:
            # identifiers given although no pre-computed distances are in use
            m.fit(Xt, lab, I_train=np.array(prog["I_train"], dtype=int))
        else:
            m.fit(Xt, lab)
    return m


def dist_matrix(prog, m):
    """D[i][j] = distance the implementation sees between training positions."""
    n = len(prog["labels"])
    if prog["mode"] == "pre":
        W = np.array(prog["W"], dtype=float)
        I = prog.get("I_train", list(range(n)))
        return [[float(W[I[a]][I[b]]) for b in range(n)] for a in range(n)]
    X = np.array(prog["X"], dtype=float)
    fn = m.distance_fn
    return [[float(fn(X[a].copy(), X[b].copy())) for b in range(n)] for a in range(n)]


def observe(m):
    sg = m.subgraph
    nodes = []
    for nd in sg.nodes:
        nodes.append({
            "cost": float(nd.cost), "density": float(nd.density), "pred": int(nd.pred),
            "root": int(nd.root), "plabel": int(nd.predicted_label),
            "cluster": int(nd.cluster_label), "label": int(nd.label),
            "radius": float(nd.radius), "adj": [int(a) for a in nd.adjacency],
            "n_plateaus": int(nd.n_plateaus),
        })
    return {"nodes": nodes, "idx_nodes": [int(i) for i in sg.idx_nodes],
            "best_k": int(sg.best_k), "n_clusters": int(sg.n_clusters),
            "constant": float(sg.constant), "density": float(sg.density),
            "min_density": float(sg.min_density), "max_density": float(sg.max_density),
            "trained": bool(sg.trained)}
