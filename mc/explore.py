"""Explorer D: stateless exploration of every sequence of environment answers
by prefix replay.  `execute(script)` runs the real code once with a Chooser
serving `script` and then default answers, and returns (chooser, verdict).
All alternatives at every choice point after the prefix are pushed; the
exploration is exhaustive unless the execution cap or the deviation bound
(number of non-default answers) is hit, which is reported."""
from mc.seams import Chooser


def explore(execute, max_exec=None, deviation_bound=None, default=0):
    """Returns dict(executions, choice_points, violations [(script, verdict)],
    complete: bool, max_depth)."""
    stack = [[]]
    execs = 0
    points = 0
    viols = []
    complete = True
    max_depth = 0
    pruned = 0
    while stack:
        prefix = stack.pop()
        ch = Chooser(prefix, default)
        verdict = execute(ch)
        execs += 1
        trace = [c for _, c in ch.points]
        if trace[:len(prefix)] != prefix[:len(trace)]:
            raise RuntimeError("replay divergence: prefix %r, trace %r" % (prefix, trace))
        points += len(trace)
        max_depth = max(max_depth, len(trace))
        if verdict is not None:
            viols.append((trace, verdict))
            if len(viols) >= 3:
                complete = False
                break
        for i in range(len(prefix), len(trace)):
            n_alt = ch.points[i][0]
            base_dev = sum(1 for k in range(i) if trace[k] != (default if default < ch.points[k][0] else 0))
            for alt in range(n_alt):
                if alt == trace[i]:
                    continue
                if deviation_bound is not None and base_dev + 1 > deviation_bound:
                    pruned += 1
                    continue
                stack.append(trace[:i] + [alt])
        if max_exec is not None and execs >= max_exec and stack:
            complete = False
            break
    return {"executions": execs, "choice_points": points, "violations": viols,
            "complete": complete and pruned == 0, "max_depth": max_depth,
            "pruned_by_deviation_bound": pruned}
