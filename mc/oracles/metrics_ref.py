"""Independent scalar transcription of the 47 closed forms (plain Python
loops, math.fsum, no numpy broadcasting, nothing shared with the library).
Transcribed from the surveys the library follows (Cha 2007; Abu Alfeilat et al.
2019); constant factors cross-checked against the 47 pinned test values
(tests/test_oracles.py)."""
from math import sqrt, log, exp, fsum

MAXW = 100000  # MAX_ARC_WEIGHT of the log-Euclidean family


def s(it):
    return fsum(it)


REF={
'additive_symmetric': lambda x,y: 2*s((a-b)**2*(a+b)/(a*b) for a,b in zip(x,y)),
'average_euclidean': lambda x,y: sqrt(s((a-b)**2 for a,b in zip(x,y))/len(x)),
'bhattacharyya': lambda x,y: -log(s(sqrt(a*b) for a,b in zip(x,y))),
'bray_curtis': lambda x,y: s(abs(a-b) for a,b in zip(x,y))/s(a+b for a,b in zip(x,y)),
'canberra': lambda x,y: s(abs(a-b)/(abs(a)+abs(b)) for a,b in zip(x,y)),
'chebyshev': lambda x,y: max(abs(a-b) for a,b in zip(x,y)),
'chi_squared': lambda x,y: 0.5*s((a-b)**2/(a+b) for a,b in zip(x,y)),
'chord': lambda x,y: sqrt(max(0.0,2-2*s(a*b for a,b in zip(x,y))/(sqrt(s(a*a for a in x))*sqrt(s(b*b for b in y))))),
'clark': lambda x,y: sqrt(s(((a-b)/(abs(a)+abs(b)))**2 for a,b in zip(x,y))),
'cosine': lambda x,y: 1-s(a*b for a,b in zip(x,y))/(sqrt(s(a*a for a in x))*sqrt(s(b*b for b in y))),
'dice': lambda x,y: 1-2*s(a*b for a,b in zip(x,y))/(s(a*a for a in x)+s(b*b for b in y)),
'divergence': lambda x,y: 2*s((a-b)**2/(a+b)**2 for a,b in zip(x,y)),
'euclidean': lambda x,y: sqrt(s((a-b)**2 for a,b in zip(x,y))),
'gaussian': lambda x,y: exp(-sqrt(s((a-b)**2 for a,b in zip(x,y)))),
'gower': lambda x,y: s(abs(a-b) for a,b in zip(x,y))/len(x),
'hamming': lambda x,y: sum(1 for a,b in zip(x,y) if a!=b),
'hassanat': lambda x,y: s((1-(1+min(a,b))/(1+max(a,b))) if min(a,b)>=0 else (1-(1+min(a,b)+abs(min(a,b)))/(1+max(a,b)+abs(min(a,b)))) for a,b in zip(x,y)),
'hellinger': lambda x,y: sqrt(2*s((sqrt(a)-sqrt(b))**2 for a,b in zip(x,y))),
'jaccard': lambda x,y: s((a-b)**2 for a,b in zip(x,y))/(s(a*a for a in x)+s(b*b for b in y)-s(a*b for a,b in zip(x,y))),
'jeffreys': lambda x,y: s((a-b)*log(a/b) for a,b in zip(x,y)),
'jensen': lambda x,y: 0.5*s((a*log(a)+b*log(b))/2-((a+b)/2)*log((a+b)/2) for a,b in zip(x,y)),
'jensen_shannon': lambda x,y: 0.5*(s(a*log(2*a/(a+b)) for a,b in zip(x,y))+s(b*log(2*b/(a+b)) for a,b in zip(x,y))),
'k_divergence': lambda x,y: s(a*log(2*a/(a+b)) for a,b in zip(x,y)),
'kulczynski': lambda x,y: s(abs(a-b) for a,b in zip(x,y))/s(min(a,b) for a,b in zip(x,y)),
'kullback_leibler': lambda x,y: s(a*log(a/b) for a,b in zip(x,y)),
'log_euclidean': lambda x,y: MAXW*log(1+sqrt(s((a-b)**2 for a,b in zip(x,y)))),
'log_squared_euclidean': lambda x,y: MAXW*log(1+s((a-b)**2 for a,b in zip(x,y))),
'lorentzian': lambda x,y: s(log(1+abs(a-b)) for a,b in zip(x,y)),
'manhattan': lambda x,y: s(abs(a-b) for a,b in zip(x,y)),
'matusita': lambda x,y: sqrt(s((sqrt(a)-sqrt(b))**2 for a,b in zip(x,y))),
'max_symmetric': lambda x,y: max(s((a-b)**2/a for a,b in zip(x,y)),s((a-b)**2/b for a,b in zip(x,y))),
'mean_censored_euclidean': lambda x,y: sqrt(s((a-b)**2 for a,b in zip(x,y))/sum(1 for a,b in zip(x,y) if a*a+b*b!=0)),
'min_symmetric': lambda x,y: min(s((a-b)**2/a for a,b in zip(x,y)),s((a-b)**2/b for a,b in zip(x,y))),
'neyman': lambda x,y: s((a-b)**2/a for a,b in zip(x,y)),
'non_intersection': lambda x,y: 0.5*s(abs(a-b) for a,b in zip(x,y)),
'pearson': lambda x,y: s((a-b)**2/b for a,b in zip(x,y)),
'sangvi': lambda x,y: 2*s((a-b)**2/(a+b) for a,b in zip(x,y)),
'soergel': lambda x,y: s(abs(a-b) for a,b in zip(x,y))/s(max(a,b) for a,b in zip(x,y)),
'squared': lambda x,y: s((a-b)**2/(a+b) for a,b in zip(x,y)),
'squared_chord': lambda x,y: s((sqrt(a)-sqrt(b))**2 for a,b in zip(x,y)),
'squared_euclidean': lambda x,y: s((a-b)**2 for a,b in zip(x,y)),
'statistic': lambda x,y: s((a-(a+b)/2)/((a+b)/2) for a,b in zip(x,y)),
'topsoe': lambda x,y: s(a*log(2*a/(a+b)) for a,b in zip(x,y))+s(b*log(2*b/(a+b)) for a,b in zip(x,y)),
'vicis_symmetric1': lambda x,y: s((a-b)**2/min(a,b)**2 for a,b in zip(x,y)),
'vicis_symmetric2': lambda x,y: s((a-b)**2/min(a,b) for a,b in zip(x,y)),
'vicis_symmetric3': lambda x,y: s((a-b)**2/max(a,b) for a,b in zip(x,y)),
'vicis_wave_hedges': lambda x,y: s(abs(a-b)/min(a,b) for a,b in zip(x,y)),
}


def chord_squared(x, y):
    """chord before its final square root (2 - 2cos), un-clamped."""
    return 2 - 2 * s(a * b for a, b in zip(x, y)) / (
        sqrt(s(a * a for a in x)) * sqrt(s(b * b for b in y)))
