"""Reference models for the supervised block: minimax (max-arc) path values,
the family of all minimum spanning trees, and the acceptable-label set of a
query.  Deliberately naive; self-tested in /verif/tests/test_oracles.py against
even more naive formulations (all simple paths, Kruskal under every tie order).
"""
import functools
import itertools

import numpy as np


def minimax_closure(W):
    """M[i][j] = min over paths i -> j of the largest arc weight (directed use
    of W).  Floyd-Warshall with (min, max).  Only comparisons and selection, so
    every entry is bit-identical to some entry of W."""
    n = len(W)
    M = [[float(W[i][j]) for j in range(n)] for i in range(n)]
    for k in range(n):
        Mk = M[k]
        for i in range(n):
            Mi = M[i]
            mik = Mi[k]
            for j in range(n):
                v = mik if mik > Mk[j] else Mk[j]
                if v < Mi[j]:
                    Mi[j] = v
    return M


def optimum_costs(W, S):
    """V*(t) = 0 on S else min_{s in S} minimax(s, t)."""
    n = len(W)
    M = minimax_closure(W)
    out = []
    for t in range(n):
        if t in S:
            out.append(0.0)
        else:
            out.append(min(M[s][t] for s in S))
    return out


@functools.lru_cache(maxsize=None)
def spanning_trees(n):
    """All spanning trees of K_n as tuples of edge indices (into
    itertools.combinations(range(n), 2)).  n^(n-2) of them."""
    edges = list(itertools.combinations(range(n), 2))
    out = []
    for comb in itertools.combinations(range(len(edges)), n - 1):
        parent = list(range(n))

        def find(x):
            while parent[x] != x:
                x = parent[x]
            return x

        ok = True
        for ei in comb:
            a, b = edges[ei]
            ra, rb = find(a), find(b)
            if ra == rb:
                ok = False
                break
            parent[ra] = rb
        if ok:
            out.append(comb)
    return tuple(out)


@functools.lru_cache(maxsize=None)
def tree_incidence(n):
    trees = spanning_trees(n)
    ne = n * (n - 1) // 2
    T = np.zeros((len(trees), ne))
    for i, t in enumerate(trees):
        for ei in t:
            T[i, ei] = 1.0
    return T


def mst_indices(n, edge_weights):
    """Indices (into spanning_trees(n)) of the minimum-weight spanning trees.
    Tree weights are compared exactly when the weights are integers; otherwise
    with a relative tolerance of 1e-12 on the sum (sums of <= 5 floats; purely relative, so
    that uniformly tiny or huge weights are judged like ordinary ones)."""
    T = tree_incidence(n)
    w = np.asarray(edge_weights, dtype=float)
    tw = T @ w
    mn = tw.min()
    tol = 1e-12 * abs(mn)      # relative only: weights may be of any magnitude
    return np.nonzero(tw <= mn + tol)[0]


def boundary_set(n, tree, lab):
    edges = list(itertools.combinations(range(n), 2))
    s = set()
    for ei in tree:
        a, b = edges[ei]
        if lab[a] != lab[b]:
            s.add(a)
            s.add(b)
    return frozenset(s)


def prototype_family(n, edge_weights, lab):
    """{endpoints of inter-class arcs of T : T a minimum spanning tree}."""
    trees = spanning_trees(n)
    return {boundary_set(n, trees[i], lab) for i in mst_indices(n, edge_weights)}


def acceptable_labels(costs, plabels, dists):
    """Labels of the training samples minimising max(cost(t), d(t, x)), and
    the optimum value."""
    best = None
    arg = []
    for t, (c, d) in enumerate(zip(costs, dists)):
        v = c if c > d else d
        if best is None or v < best:
            best, arg = v, [t]
        elif v == best:
            arg.append(t)
    return {plabels[t] for t in arg}, best, arg
