"""The fixed axiom table of C08 and the domain classes of C06/C08.

Domain classes (value grids are in mc/props/c06.py / c08.py):
  R  all reals (negatives, zero, equal and opposite components)
  N  non-negative including 0
  P  strictly positive
  S  probability vectors (components sum to 1)
  T  tolerance ladder: strictly positive values spaced around 1e-8 absolute / 1e-5 relative
A metric is judged only on the classes listed for it.  "zero_ok" adds the
zero-containing variants of its classes for the *finiteness* axiom (the
decorated metrics must stay finite there).
"""
NAMES = [
    "additive_symmetric", "average_euclidean", "bhattacharyya", "bray_curtis", "canberra",
    "chebyshev", "chi_squared", "chord", "clark", "cosine", "dice", "divergence", "euclidean",
    "gaussian", "gower", "hamming", "hassanat", "hellinger", "jaccard", "jeffreys", "jensen",
    "jensen_shannon", "k_divergence", "kulczynski", "kullback_leibler", "log_euclidean",
    "log_squared_euclidean", "lorentzian", "manhattan", "matusita", "max_symmetric",
    "mean_censored_euclidean", "min_symmetric", "neyman", "non_intersection", "pearson",
    "sangvi", "soergel", "squared", "squared_chord", "squared_euclidean", "statistic", "topsoe",
    "vicis_symmetric1", "vicis_symmetric2", "vicis_symmetric3", "vicis_wave_hedges",
]
assert len(NAMES) == 47 and len(set(NAMES)) == 47

R_CLASS = {"average_euclidean", "chebyshev", "euclidean", "gaussian", "gower", "hamming",
           "log_euclidean", "log_squared_euclidean", "lorentzian", "manhattan",
           "non_intersection", "squared_euclidean"}
N_CLASS = {"hellinger", "matusita", "squared_chord"}
ASYMMETRIC = {"kullback_leibler", "k_divergence", "neyman", "pearson", "statistic"}
NOT_DISSIMILARITY = {"gaussian", "statistic"}
ONLY_ON_SIMPLEX = {"bhattacharyya", "kullback_leibler", "k_divergence"}
TRIANGLE = {"euclidean", "manhattan", "chebyshev", "average_euclidean", "gower",
            "non_intersection", "hamming", "lorentzian", "log_euclidean", "hellinger",
            "matusita", "canberra", "soergel"}
# decorated with the epsilon shift in the library (must stay finite on zero-containing input)
DECORATED = set(NAMES) - R_CLASS - N_CLASS


def domain_classes(name):
    """Classes on which the closed form / the axioms are judged."""
    if name in R_CLASS:
        return ["R", "N", "P", "S", "T"]
    if name in N_CLASS:
        return ["N", "P", "S", "T"]
    return ["P", "S", "T"]


def row(name):
    return {
        "classes": domain_classes(name),
        "finite": True,
        "finite_on_zero_containing": name in DECORATED or name in N_CLASS or name in R_CLASS,
        "symmetric": name not in ASYMMETRIC,
        "dissimilarity": name not in NOT_DISSIMILARITY,
        "dissimilarity_classes": (["S"] if name in ONLY_ON_SIMPLEX else domain_classes(name))
        if name not in NOT_DISSIMILARITY else [],
        "triangle": name in TRIANGLE,
    }


def dissimilarity_metrics():
    """symmetric, non-negative, zero self-distance on all their classes
    (the metric list of C04)."""
    return [n for n in NAMES if n not in ASYMMETRIC and n not in NOT_DISSIMILARITY
            and n not in ONLY_ON_SIMPLEX]
