"""Reference model for the k-NN graph / density estimate (C12, C13, C14)."""
import math

MAX_DENSITY = 1000
FLOAT_MAX = 1.7976931348623157e308


def knn_reference(D, k):
    """D[i][j] distance matrix (as the implementation sees it).  Returns per
    node the sorted list of its min(k, n-1) smallest distances, plus
    per-rank maxima (length k, zero for ranks that do not exist) and the bound."""
    n = len(D)
    kk = min(k, n - 1)
    near = []
    maxd = [0.0] * k
    for i in range(n):
        ds = sorted(D[i][j] for j in range(n) if j != i)[:kk]
        near.append(ds)
        for l, d in enumerate(ds):
            if d > maxd[l]:
                maxd[l] = d
    bound = max([0.0] + [d for ds in near for d in ds])
    if bound < 0.00001:
        bound = 1
    return near, maxd, bound


def adjacency_problem(D, k, i, adj, radius, near_i):
    n = len(D)
    kk = min(k, n - 1)
    if len(adj) != kk:
        return "sample %d has %d neighbours, expected min(k, n-1) = %d" % (i, len(adj), kk)
    if len(set(adj)) != len(adj) or i in adj or any(not (0 <= a < n) for a in adj):
        return "sample %d has neighbour list %s (not distinct other samples)" % (i, adj)
    ds = [D[i][a] for a in adj]
    if ds != near_i:
        return ("sample %d: neighbour distances %s are not the %d smallest in ascending order %s"
                % (i, ds, kk, near_i))
    want_r = near_i[-1] if near_i else 0.0
    if radius != want_r:
        return "sample %d has radius %r, its largest neighbour distance is %r" % (i, radius, want_r)
    return None


def pdf_reference(near, kp, bound):
    """Unmapped density values for k' = kp neighbours: sum exp(-d/constant)/(k'+1)."""
    const = 2 * bound / 9
    out = []
    for ds in near:
        s = 0.0
        for d in ds[:kp]:
            s += math.exp(-d / const)
        out.append(s / (kp + 1))
    return out, const


def close(a, b, rel=1e-9, ab=1e-12):
    return a == b or abs(a - b) <= max(ab, rel * max(abs(a), abs(b)))


def density_problem(pdf, const, obs_nodes, obs_const, obs_min, obs_max):
    """obs_nodes: list of (density, cost).  Returns text or None; 'SKIP' when the
    reference values are equal only up to rounding (mapping undecidable)."""
    if not close(obs_const, const, 1e-12):
        return "stored constant %r, expected 2/9 of the density bound = %r" % (obs_const, const)
    mn, mx = min(pdf), max(pdf)
    if not close(obs_min, mn, 1e-9) or not close(obs_max, mx, 1e-9):
        return ("stored min/max of the unmapped densities (%r, %r), true values (%r, %r)"
                % (obs_min, obs_max, mn, mx))
    n = len(pdf)
    if mx == mn or abs(mx - mn) <= 1e-12 * abs(mx):
        if all(d == MAX_DENSITY and c == MAX_DENSITY - 1 for d, c in obs_nodes):
            return None
        if mx == mn and obs_min == obs_max:
            return "all density values are equal but the samples do not all get MAX_DENSITY: %s" % (obs_nodes,)
        return "SKIP"
    for i in range(n):
        want = (MAX_DENSITY - 1) * (pdf[i] - mn) / (mx - mn) + 1
        d, c = obs_nodes[i]
        tol = 1e-9 * MAX_DENSITY + 4e-13 * MAX_DENSITY * abs(mx) / (mx - mn)
        if abs(d - want) > tol:
            return ("sample %d has density %r, the affine map onto [1, %d] gives %r"
                    % (i, d, MAX_DENSITY, want))
        if c != d - 1:
            return "sample %d has initial cost %r, expected density - 1 = %r" % (i, c, d - 1)
    # order preservation
    for i in range(n):
        for j in range(n):
            if pdf[i] < pdf[j] - 1e-12 * abs(mx) and not obs_nodes[i][0] < obs_nodes[j][0]:
                return "density map does not preserve order between samples %d and %d" % (i, j)
    return None
