"""Compile (and cache) every jitted metric once so workers never JIT."""
import sys
from mc.runner import bind_repo


def warm_metrics():
    import numpy as np
    import opfython.math.distance as D
    x = np.array([0.25, 0.5, 0.25])
    y = np.array([0.5, 0.25, 0.25])
    for name, fn in D.DISTANCES.items():
        fn(x.copy(), y.copy())
    return len(D.DISTANCES)


def warm_dtypes(names=None):
    """float32 / int64 / mixed specialisations used by the dtype alphabets (C07, C10, C15)."""
    import numpy as np
    import opfython.math.distance as D
    xf, yf = np.array([0.25, 0.5], dtype=np.float32), np.array([0.5, 0.25], dtype=np.float32)
    xi, yi = np.array([1, 2], dtype=np.int64), np.array([3, 1], dtype=np.int64)
    xd = np.array([0.5, 1.5])
    for name, fn in D.DISTANCES.items():
        if names is not None and name not in names:
            continue
        fn(xf.copy(), yf.copy())
        try:
            fn(xi.copy(), yi.copy())
            fn(xi.copy(), xd.copy())
            fn(xd.copy(), xi.copy())
        except Exception:
            pass


if __name__ == "__main__":
    bind_repo()
    n = warm_metrics()
    warm_dtypes()
    print("warmed %d metrics (float64, float32, int64, mixed)" % n)
    sys.exit(0)
