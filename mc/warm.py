"""Compile (and cache) every jitted metric once so workers never JIT."""
import sys
from mc.runner import bind_repo


def warm_metrics():
    import numpy as np
    import opfython.math.distance as D
    x = np.array([0.25, 0.5, 0.25])
    y = np.array([0.5, 0.25, 0.25])
    for name, fn in D.DISTANCES.items():
        fn(x.copy(), y.copy())
    return len(D.DISTANCES)


if __name__ == "__main__":
    bind_repo()
    n = warm_metrics()
    print("warmed %d metrics" % n)
    sys.exit(0)
