"""C14 - KNN-supervised / unsupervised prediction follows the exhaustive
k-nearest max-min rule.  Explorer E over (fitted model, query, batch position)."""
import itertools
import math

import numpy as np

from mc import enum as E
from mc import knn as K
from mc.runner import Result, horizon, Horizon

ID = "C14"
TITLE = "KNN/unsupervised prediction = exhaustive k-nearest max-min rule"
RULE = ("every model of C13's lattice families (all point sequences over {0..3} for n=3,4 "
        "(thorough 5) and over {0,1,2}^2 for n=3, all k ranges, both model kinds) x every query "
        "in {lattice points (copies of training samples), midpoints, a far point} x every batch "
        "position 0..n (the query is preceded by 0..n far-away samples, so positions below and "
        "beyond the training-set size are both exercised); each model with the natural validation "
        "criterion and with every k of its range forced through the intercepted criterion; oracle: distances to ALL training "
        "samples, every valid choice of the best_k nearest under distance ties, density from the "
        "stored constant and range, acceptable = (label, cluster) of any chosen neighbour "
        "attaining max min(cost, density); Fortran / transposed layouts and calls after an interrupted "
        "predict for the 2-D family; pre-computed matrices with ALL query rows in one batch (ascending and "
        "descending) whose query x query block - never mentioned by the rule - is honest, all 0 or all 1e30; non-trivial = more than one valid neighbour choice, "
        "or more than one acceptable outcome, or batch position < n")
ASSUMPTIONS = [
    "the model's stored constant, density range, costs and labels are taken as given (C12/C13 judge them)",
    "the divisor of the query density is accepted as k (as implemented) or k+1 (training convention); "
    "the statement does not fix it",
    "comparisons of min(cost, density) use a 1e-9 relative tolerance",
    "n <= 4 (quick) / 5 (thorough)",
]
METRICS = {"quick": ["euclidean"], "thorough": ["euclidean", "manhattan", "log_squared_euclidean"]}
MAXD, EPS = 1000, 1e-20


def bounds(tier):
    return {"models": "P(3..4%s,{0..3}), P(3,{0,1,2}^2) x all k ranges; P(4,{0..3}) scaled by 1e-11 under "
            "squared_euclidean%s" % ((",5", "") if tier == "thorough" else
                                     ("", "; P(5,{0..3}) with forced k = 2, 3 and training copies as queries")),
            "metrics": METRICS[tier], "batch_positions": "0..n",
            "joint_batches": "pre-computed P(3..4,{0..3}) x k = 1..n-1 forced x query-query block in "
                             "{honest, 0, 1e30} x batch order in {ascending, descending}"}


def plan(tier, seed):
    shards = []
    for mt in METRICS[tier]:
        ns = (3, 4) + ((5,) if tier == "thorough" else ())
        for n in ns:
            for a, b in E.chunks(4 ** n, 8 if n >= 4 else 16):
                shards.append(("1d", n, mt, a, b))
        for a, b in E.chunks(729, 30):
            shards.append(("2d", 3, mt, a, b))
    # a semimetric (no triangle inequality) on two-dimensional count-like data
    for a, b in E.chunks(729, 30):
        shards.append(("2d", 3, "bray_curtis", a, b))
    if tier == "quick":
        # five samples, reduced: copies of training samples as queries, forced k = 2, 3
        for a, b in E.chunks(4 ** 5, 32):
            shards.append(("1d-copies", 5, "euclidean", a, b))
    # six samples at generic (tie-free) positions, every training order, k = 3 and 4 forced; the
    # KNN-supervised model gets one class per sample, so the returned label names the winning neighbour
    for a, b in E.chunks(720, 45):
        shards.append(("gen", 6, "euclidean", a, b))
    # pre-computed distances, ALL queries in one batch: the rule reads only (query, training sample)
    # entries, so the query x query block of the matrix is free - honest, all 0, or all huge
    for n in (3, 4):
        for a, b in E.chunks(4 ** n, 8 if n >= 4 else 16):
            shards.append(("pre-batch", n, "euclidean", a, b))
    # ordinary lattice data at a scale where every squared distance is ~1e-22
    for a, b in E.chunks(4 ** 4, 16):
        shards.append(("1d-tiny", 4, "squared_euclidean", a, b))
    return shards


def warm():
    from mc.warm import warm_metrics
    warm_metrics()


def queries(pts):
    qs = set(pts)
    for a in pts:
        for b in pts:
            qs.add(tuple((x + y) / 2.0 for x, y in zip(a, b)))
    d = len(pts[0])
    far = tuple(max(p[i] for p in pts) * 7.0 + 31.0 for i in range(d))
    return sorted(qs) + [far]


def programs(shard, seed):
    """natural validation criterion, plus every k of the range forced through the scripted
    criterion (the prediction rule must hold for whichever k training selected)"""
    for p in _programs(shard, seed):
        yield p
        lo = p.get("min_k", 1)
        if p["max_k"] > lo and "force_k" not in p and not p.get("critical"):
            for k in range(lo, p["max_k"] + 1):
                q = dict(p)
                q["force_k"] = k
                yield q


def _programs(shard, seed):
    lk, n, metric, a, b = shard
    if lk == "1d-copies":
        pts = E.lattice("1d", seed)
        pad = [p * 1000.0 + 5000.0 for p in pts[-1]]
        for si in range(a, b):
            seq = E.sequence_at(len(pts), n, si)
            X = [list(pts[i]) for i in seq]
            for mx in (2, 3):
                for model in ("UnsupervisedOPF", "KNNSupervisedOPF"):
                    lab = [i % 2 for i in range(n)]
                    p = {"model": model, "mode": "features", "X": X, "metric": metric, "labels": lab,
                         "max_k": mx, "force_k": mx, "queries": [list(q) for q in pts], "pad": pad,
                         "positions": [0, n]}
                    if model == "UnsupervisedOPF":
                        p["min_k"] = 1
                    else:
                        p["val"] = {"X": X, "labels": lab}
                    yield p
        return
    if lk == "pre-batch":
        pts = E.lattice("1d", seed)
        qs = [q[0] for q in queries(pts)]
        for si in range(a, b):
            seq = E.sequence_at(len(pts), n, si)
            xs = [pts[i][0] for i in seq]
            allp = xs + qs
            base = [[abs(u - v) for v in allp] for u in allp]
            for block in ("honest", "zero", "huge"):
                W = [row[:] for row in base]
                if block != "honest":
                    for u in range(n, len(allp)):
                        for v in range(n, len(allp)):
                            if u != v:
                                W[u][v] = 0.0 if block == "zero" else 1e30
                for mx in range(1, n):
                    for model in ("UnsupervisedOPF", "KNNSupervisedOPF"):
                        lab = [i % 2 for i in range(n)]
                        p = {"model": model, "mode": "pre", "W": W, "labels": lab, "max_k": mx,
                             "force_k": mx, "joint": True, "block": block,
                             "queries": [[q] for q in qs], "pad": [0.0], "positions": [0]}
                        if model == "UnsupervisedOPF":
                            p["min_k"] = 1
                        else:
                            # KNNSupervisedOPF.fit insists on an n x n matrix: it is fitted on the training
                            # block and given the complete matrix (public attribute) before predicting
                            p["val"] = {"I": list(range(n)), "labels": lab}
                            p["W_full"] = W
                            p["W"] = [row[:n] for row in W[:n]]
                        yield p
        return
    if lk == "gen":
        import itertools
        sc = [1.0, 0.5, 2.0, 3.0][seed % 4] if seed else 1.0
        marks = [0.0, 1.0, 4.0, 9.0, 15.0, 22.0]
        pad = [1e6]
        qs = sorted({m * sc + d for m in marks for d in (-0.4, 0.0, 0.3)} |
                    {(a_ + b_) * sc / 2.0 + 0.01 for a_ in marks for b_ in marks} | {40.0 * sc})
        for perm in itertools.islice(itertools.permutations(range(n)), a, b):
            X = [[marks[i] * sc] for i in perm]
            for mx in (3, 4):
                yield {"model": "UnsupervisedOPF", "mode": "features", "X": X, "metric": metric,
                       "labels": [i % 2 for i in range(n)], "min_k": 1, "max_k": mx, "force_k": mx,
                       "queries": [[q] for q in qs], "pad": pad, "positions": [0]}
                lab = list(range(n))
                yield {"model": "KNNSupervisedOPF", "mode": "features", "X": X, "metric": metric,
                       "labels": lab, "max_k": mx, "force_k": mx, "val": {"X": X, "labels": lab},
                       "queries": [[q] for q in qs], "pad": pad, "positions": [0]}
        return
    if lk == "1d-tiny":
        pts = [tuple(v * 1e-11 for v in p) for p in E.lattice("1d", seed)]
        lk = "1d"
    else:
        pts = E.lattice(lk, seed)
    qs = [list(q) for q in queries(pts)]
    if lk == "2d":
        qs = qs[::3] + [qs[-1]]
    pad = [p * 1000.0 + 5000.0 for p in pts[-1]]
    for si in range(a, b):
        seq = E.sequence_at(len(pts), n, si)
        X = [list(pts[i]) for i in seq]
        if lk == "2d":
            # the same data in other memory layouts, and after an interrupted earlier call
            for extra in ({"layout": "F"}, {"layout": "T"}, {"layout": "R"}, {"layout": "N"}, {"crash": True}):
                for model in ("UnsupervisedOPF", "KNNSupervisedOPF"):
                    lab = [i % 2 for i in range(n)]
                    p = {"model": model, "mode": "features", "X": X, "metric": metric, "labels": lab,
                         "max_k": 2, "queries": qs[:4], "pad": pad, "positions": [0, 1]}
                    p.update(extra)
                    if model == "UnsupervisedOPF":
                        p["min_k"] = 1
                    else:
                        p["val"] = {"X": X, "labels": lab}
                    yield p
        for mx in range(1, n):
            for mn in range(1, mx + 1):
                yield {"model": "UnsupervisedOPF", "mode": "features", "X": X, "metric": metric,
                       "labels": [i % 2 for i in range(n)], "min_k": mn, "max_k": mx,
                       "queries": qs, "pad": pad}
            if lk == "1d" and n == 4 and mx >= 2 and metric == "euclidean":
                yield {"model": "UnsupervisedOPF", "mode": "features", "X": X, "metric": metric,
                       "labels": [i % 2 for i in range(n)], "min_k": 1, "max_k": mx, "force_k": mx,
                       "queries": [], "pad": pad, "positions": [0], "critical": True}
            for lab in E.labelings(n, max_classes=2):
                lab = list(E.rename_classes(lab, seed))
                yield {"model": "KNNSupervisedOPF", "mode": "features", "X": X, "metric": metric,
                       "labels": lab, "max_k": mx, "val": {"X": X, "labels": lab},
                       "queries": qs, "pad": pad}
                if lk == "1d" and n == 4 and mx >= 2 and metric == "euclidean":
                    yield {"model": "KNNSupervisedOPF", "mode": "features", "X": X, "metric": metric,
                           "labels": lab, "max_k": mx, "force_k": mx, "val": {"X": X, "labels": lab},
                           "queries": [], "pad": pad, "positions": [0], "critical": True}


def acceptable(m, q, unsup, row=None):
    """Set of acceptable (label, cluster) outcomes, #valid neighbour choices.  With row=<list> the
    distances to the training samples (in node order) are given (pre-computed mode)."""
    sg = m.subgraph
    N = sg.nodes
    n = len(N)
    k = int(sg.best_k)
    qa = None if q is None else np.array(q, dtype=float)
    if row is not None:
        d = [float(v) for v in row]
    else:
        d = [float(m.distance_fn(qa.copy(), N[j].features.copy())) for j in range(n)]
    order = sorted(range(n), key=lambda j: d[j])
    kth = d[order[k - 1]]
    sure = [j for j in range(n) if d[j] < kth]
    tied = [j for j in range(n) if d[j] == kth]
    const = float(sg.constant)
    mn, mxd = float(sg.min_density), float(sg.max_density)
    acc = set()
    nchoices = 0
    for extra in itertools.combinations(tied, k - len(sure)):
        nchoices += 1
        nb = sure + list(extra)
        S = 0.0
        for dj in sorted(d[j] for j in nb):
            S += math.exp(-dj / const)
        for dv in (k,):      # mean over the k distances, as the statement says (DESIGN.md 9.9)
            dens = (MAXD - 1) * (S / dv - mn) / (mxd - mn + EPS) + 1
            vals = {j: min(float(N[j].cost), dens) for j in nb}
            top = max(vals.values())
            tol = 1e-9 * max(1.0, abs(top))
            for j in nb:
                if vals[j] >= top - tol:
                    acc.add((int(N[j].predicted_label), int(N[j].cluster_label) if unsup else 0))
    return acc, nchoices


def critical_points(m, unsup, lo=-1.0, hi=4.5, step=0.125):
    """1-D only: positions where the set of outcomes allowed by the reference changes."""
    out = []
    xs = []
    x = lo
    while x <= hi:
        xs.append(x)
        x += step
    prev_x, prev = xs[0], frozenset(acceptable(m, [xs[0]], unsup)[0])
    for x in xs[1:]:
        cur = frozenset(acceptable(m, [x], unsup)[0])
        if cur != prev:
            a, b, fa = prev_x, x, prev
            for _ in range(60):
                mid = (a + b) / 2.0
                if mid == a or mid == b:
                    break
                fm = frozenset(acceptable(m, [mid], unsup)[0])
                if fm == fa:
                    a = mid
                else:
                    b = mid
            for d in (1e-7, 1e-5, 1e-3, 1e-2):
                out.append(a - d)
                out.append(b + d)
        prev_x, prev = x, cur
    return out


def run_case(prog, res=None):
    unsup = prog["model"] == "UnsupervisedOPF"
    try:
        from mc.props import c13
        with c13.force_k(prog):
            m = K.fit_program(prog)
        if unsup:
            m.propagate_labels()
    except Horizon:
        raise
    except Exception as ex:
        return viol(prog, "fit raised %r" % (ex,), "fit raised %s" % type(ex).__name__)
    n = len(prog["labels"])
    positions = prog.get("positions", list(range(n + 1)))
    if prog.get("critical"):
        # queries right at the places where the exhaustive rule changes its answer (found by bisection
        # on the reference): there the query density crosses a neighbour's cost or a neighbour changes
        prog = dict(prog)
        prog["queries"] = list(prog["queries"]) + [[x] for x in critical_points(m, unsup)]
    if prog.get("crash"):
        # an earlier predict call, interrupted at each of its metric calls, precedes the call under test
        from mc.faults import FaultyFn
        orig_fn = m.distance_fn
        q0 = prog["queries"][0]
        acc0, _ = acceptable(m, q0, unsup)
        cnt = FaultyFn(orig_fn)
        m.distance_fn = cnt
        try:
            m.predict(np.array([prog["queries"][-1], prog["queries"][1]], dtype=float))
        except Exception:
            pass
        m.distance_fn = orig_fn
        for k in range(1, cnt.calls + 1):
            m.distance_fn = FaultyFn(orig_fn, k)
            try:
                m.predict(np.array([prog["queries"][-1], prog["queries"][1]], dtype=float))
            except Exception:
                pass
            m.distance_fn = orig_fn
            out = m.predict(np.array([q0], dtype=float))
            got = (int(out[0][-1]), int(out[1][-1])) if unsup else (int(out[-1]), 0)
            if res is not None:
                res.transitions += 2
                res.evaluations += 1
            if got not in acc0:
                return viol(prog, "query %s received %s in the first call after a predict call interrupted at its "
                            "metric call %d; the exhaustive rule allows only %s" % (q0, got, k, sorted(acc0)),
                            "outcome depends on an earlier interrupted call")
    if prog.get("joint"):
        return run_joint(prog, m, unsup, n, res)
    for q in prog["queries"]:
        acc, nch = acceptable(m, q, unsup)
        for pos in positions:
            batch = np.array([prog["pad"]] * pos + [q], dtype=float)
            if prog.get("layout"):
                from mc import layout as LY
                batch = LY.apply(batch, prog["layout"])
            try:
                out = m.predict(batch)
            except Horizon:
                raise
            except Exception as ex:
                return viol(prog, "predict raised %r" % (ex,), "predict raised %s" % type(ex).__name__, q, pos)
            if unsup:
                got = (int(out[0][-1]), int(out[1][-1]))
            else:
                got = (int(out[-1]), 0)
            if res is not None:
                res.transitions += 1
                res.evaluations += 1
                if nch > 1 or len(acc) > 1 or pos < n:
                    res.nontrivial += 1
                res.outcome((prog["model"][0], n, nch > 1, len(acc), got in acc))
            if got not in acc:
                return viol(prog, "query %s at batch position %d received (label, cluster) = %s; the "
                            "exhaustive k-nearest max-min rule over all %d training samples allows "
                            "only %s (best_k=%d)" % (q, pos, got, n, sorted(acc), m.subgraph.best_k),
                            "outcome not allowed by the exhaustive rule"
                            + (" (batch position < n_train)" if pos < n and pos > 0 else ""), q, pos)
    return None


def run_joint(prog, m, unsup, n, res):
    """pre-computed mode: every query row of W in ONE predict call (in the given order and reversed);
    each answer is judged from its own row of distances to the training samples only."""
    W = prog.get("W_full", prog["W"])
    if "W_full" in prog:
        m.pre_distances = np.array(W, dtype=float)
    nq = len(W) - n
    idx_tr = [int(nd.idx) for nd in m.subgraph.nodes]
    for order in (list(range(n, n + nq)), list(range(n + nq - 1, n - 1, -1))):
        try:
            out = m.predict(np.zeros((nq, 1)), np.array(order, dtype=int))
        except Horizon:
            raise
        except Exception as ex:
            return viol(prog, "predict raised %r" % (ex,), "predict raised %s" % type(ex).__name__)
        for pos, qi in enumerate(order):
            acc, nch = acceptable(m, None, unsup, row=[W[qi][t] for t in idx_tr])
            got = (int(out[0][pos]), int(out[1][pos])) if unsup else (int(out[pos]), 0)
            if res is not None:
                res.transitions += 1
                res.evaluations += 1
                if nch > 1 or len(acc) > 1 or pos > 0:
                    res.nontrivial += 1
                res.outcome(("J" + prog["model"][0], n, nch > 1, len(acc), got in acc))
            if got not in acc:
                return viol(prog, "pre-computed matrix (query x query block %s), all %d query rows in one batch "
                            "%s: row %d at batch position %d received (label, cluster) = %s; the exhaustive rule "
                            "over its distances to the %d training samples allows only %s (best_k=%d)"
                            % (prog["block"], nq, "ascending" if order[0] == n else "descending", qi, pos, got,
                               n, sorted(acc), m.subgraph.best_k),
                            "outcome in a joint batch not allowed by the exhaustive rule")
    return None


def viol(prog, prob, sym, q=None, pos=None):
    p = dict(prog)
    if q is not None:
        p["queries"] = [q]
        p["positions"] = [pos]
    return {"check": "knn-predict", "program": p, "observed": prob,
            "allowed": "outcome of a neighbour maximising min(cost, density) among the k nearest",
            "explanation": prob, "fingerprint": "%s.predict: %s" % (prog["model"], sym)}


def run(shard, seed):
    res = Result()
    first = True
    for prog in programs(shard, seed):
        try:
            with horizon(20.0):
                v = run_case(prog, res)
        except Horizon as hz:
            v = viol(prog, str(hz), "no termination")
        res.states += 1
        res.traces += 1
        if first:
            s = dict(prog)
            s["queries"] = s["queries"][:3]
            res.sample(s, 1)
            first = False
        if v:
            res.violations.append(v)
            if res.full:
                break
    return res


def replay(case):
    return run_case(case["program"])
