"""C05 - the indexed heap is a correct priority queue for every operation
sequence.  Explorer B: explicit-state breadth-first search to fixpoint over
the joint state (real Heap fields  x  reference priority queue); every
transition is one call of the real Heap method on a Heap rebuilt from the
state tuple.
"""
import collections
import itertools

from mc.runner import Result, horizon, Horizon

ID = "C05"
TITLE = "indexed heap is a correct priority queue"
RULE = ("explicit-state BFS to fixpoint over (Heap.cost,color,p,pos,last) x reference "
        "(status,key per element); alphabet: cost[e]=v;insert(e) / update(e,v) on a "
        "never-inserted e, update(e,v) on a queued e with v strictly better, remove() in "
        "every state (also empty), insert(e) for every e when full; v over an ordered key "
        "alphabet so all tie patterns occur; a state is non-trivial when at least two "
        "elements are queued (a comparison between keys is needed); every state is also "
        "drained on a copy (each queued element exactly once, in key order)")
ASSUMPTIONS = [
    "capacities and key alphabets as listed in coverage.bounds; larger heaps are not explored",
    "element identifiers are 0..size-1; each is inserted at most once (the way all four models use "
    "the heap) except in the re-insertion configurations (capacities 1..3(4), two key values)",
    "updates of queued elements only improve the key in the policy's direction "
    "(the property's precondition)",
    "updates of already removed (BLACK) elements are outside the property and not issued",
]

WHITE, GRAY, BLACK = 0, 1, 2


def key_table(seed, m):
    """Ordered key alphabet; the seed only changes the numeric embedding."""
    if m == "fmax":      # the heap's own default cost as a key value
        import sys
        return (0.0, 1.0, sys.float_info.max)
    if m == "inf":
        return (0.0, 1.0, float("inf"))
    if m == "re2":       # two key values; removed elements may be inserted again
        return (0.0, 1.0)
    if seed == 0:
        return tuple(float(i) for i in range(m))
    import random
    rnd = random.Random(1000 + seed)
    vals = set()
    while len(vals) < m:
        vals.add(round(rnd.choice([0.0, rnd.uniform(0, 1), rnd.uniform(0, 1e6),
                                   float(rnd.randint(0, 9))]), 6))
    return tuple(sorted(vals))


CONFIGS = {
    # (capacity, number of key values)
    "quick": [(1, 3), (2, 3), (3, 3), (4, 3), (5, 3)],
    "thorough": [(1, 4), (2, 4), (3, 4), (4, 4), (5, 4), (6, 3), (7, 2)],
}


DEEP = {"quick": [(6, 2), (7, 2), (8, 2), (9, 2)], "thorough": [(6, 3), (7, 3), (8, 2), (9, 2), (10, 2)]}


def bounds(tier):
    return {"capacity_x_keys": CONFIGS[tier], "policies": ["min", "max"],
            "extreme_keys": "capacities 2..4 with key alphabets {0, 1, FLOAT_MAX} and {0, 1, +inf}",
            "depth": "fixpoint (finite DAG)",
            "from_every_valid_heap": ["all %d heap arrangements of %d distinct keys (capacity %d), every "
                                      "operation sequence of length <= %d" % (len(valid_heaps(n)), n, n + 1, d)
                                      for n, d in DEEP[tier]]}


_VH = {}


def valid_heaps(n):
    """All arrays (permutations of ranks 0..n-1) with a[parent] < a[child]: every one is
    reachable by inserting its keys in level order (no sift happens)."""
    if n in _VH:
        return _VH[n]
    out = []
    a = [None] * n
    used = [False] * n

    def rec(i):
        if i == n:
            out.append(tuple(a))
            return
        par = a[(i - 1) // 2] if i else -1
        for v in range(par + 1, n):
            if not used[v]:
                used[v] = True
                a[i] = v
                rec(i + 1)
                used[v] = False

    rec(0)
    _VH[n] = out
    return out


def plan(tier, seed):
    shards = []
    for cap, m in CONFIGS[tier]:
        for policy in ("min", "max"):
            shards.append((policy, cap, m))
    # biggest first for load balance
    shards.sort(key=lambda s: -(s[1] * 10 + s[2]))
    # extreme key values: FLOAT_MAX (the default cost of an element never given one) and +inf
    for cap in (2, 3, 4):
        for policy in ("min", "max"):
            shards.append((policy, cap, "fmax"))
            shards.append((policy, cap, "inf"))
    # removed elements may be queued again (state graph with cycles; still finite)
    for cap in (1, 2, 3) + ((4,) if tier == "thorough" else ()):
        for policy in ("min", "max"):
            shards.append((policy, cap, "re2"))
    # the policy given through the public setter after construction (constructed with the other one)
    for cap, m in ((2, 2), (3, 3), (4, 2)):
        for policy in ("min", "max"):
            shards.append((policy, cap, m, "setter"))
            shards.append((policy, cap, m, "built"))
    # fill-and-drain: every sequence of 6 / 7 inserts over three / four key values (all tie patterns
    # in a heap of three levels), each followed by a complete drain
    for policy in ("min", "max"):
        shards.append(("fill", policy, 6, 4))
        shards.append(("fill", policy, 7, 3))
    # one long deterministic history on a heap of 300 elements (identifiers beyond 256)
    for policy in ("min", "max"):
        shards.append(("bigheap", policy, 300))
    # start from non-initial states too: every valid heap arrangement of n distinct keys,
    # built through real inserts, then every operation sequence up to a depth
    for n, depth in DEEP[tier]:
        total = len(valid_heaps(n))
        step = max(1, total // 24)
        for policy in ("min", "max"):
            for a in range(0, total, step):
                shards.append(("deep", policy, n, depth, a, min(total, a + step)))
    return shards


def warm():
    import opfython.core.heap  # noqa


def heap_class(how):
    """The library's Heap (how = False); a factory that constructs it with the OTHER policy and then
    assigns the wanted one through the public `policy` property on the still empty heap (how = True /
    "setter"); or a factory that passes a policy string built at run time (how = "built": equal to,
    but not the same object as, the literal in the library's source - e.g. read from a configuration)."""
    from opfython.core.heap import Heap
    if not how:
        return Heap

    def fresh(text):
        return "".join(list(text))

    def make(size, policy):
        if how == "built":
            return Heap(size, fresh(policy))
        h = Heap(size, fresh("max" if policy == "min" else "min"))
        h.policy = fresh(policy)
        return h
    return make


# --------------------------------------------------------------------------
# real heap <-> state tuple
# --------------------------------------------------------------------------
def mk_heap(Heap, size, policy, st):
    h = Heap(size, policy)
    cost, color, p, pos, last = st
    h.cost = list(cost)
    h.color = list(color)
    h.p = list(p)
    h.pos = list(pos)
    h.last = last
    return h


def snap(h):
    return (tuple(h.cost), tuple(h.color), tuple(h.p), tuple(h.pos), h.last)


def better(policy, a, b):
    return a < b if policy == "min" else a > b


REINSERT = [False]


def enabled_ops(policy, size, ref, keys):
    """ref = (status tuple, key tuple)"""
    status, key = ref
    ops = []
    n_queued = sum(1 for s in status if s == GRAY)
    for e in range(size):
        if status[e] == BLACK and REINSERT[0] and n_queued < size:
            # an element that was already returned is queued again (a new insertion of the same id)
            for v in keys:
                ops.append(("insert", e, v))
        if status[e] == WHITE:
            for v in keys:
                ops.append(("insert", e, v))
                ops.append(("update", e, v))
        elif status[e] == GRAY:
            for v in keys:
                if better(policy, v, key[e]):
                    ops.append(("update", e, v))
    ops.append(("remove", -1, 0.0))
    if n_queued == size:
        for e in range(size):
            ops.append(("insert_full", e, 0.0))
    return ops


def normalise(x):
    """Return values are compared by identity class: True/False/int."""
    if x is True:
        return "True"
    if x is False:
        return "False"
    if x is None:
        return "None"
    try:
        import numpy as np
        if isinstance(x, (int, np.integer)):
            return int(x)
        if isinstance(x, (bool, np.bool_)):
            return "True" if x else "False"
    except Exception:
        pass
    return repr(x)


def step(h, policy, size, ref, op):
    """Apply op to the real heap h (mutated) and the reference; returns
    (new_ref, problem or None)."""
    status, key = list(ref[0]), list(ref[1])
    kind, e, v = op
    before = snap(h)
    n_queued = sum(1 for s in status if s == GRAY)
    prob = None
    if kind == "insert":
        h.cost[e] = v
        ret = normalise(h.insert(e))
        if n_queued == size:
            want = "False"
        else:
            want = "True"
            status[e] = GRAY
            key[e] = v
        if ret != want:
            prob = "insert(%d) with key %r returned %s, expected %s" % (e, v, ret, want)
    elif kind == "update":
        h.update(e, v)
        if status[e] == WHITE:
            status[e] = GRAY
        key[e] = v
    elif kind == "insert_full":
        ret = normalise(h.insert(e))
        if ret != "False":
            prob = "insert(%d) on a full heap returned %s, expected False" % (e, ret)
        elif snap(h) != before:
            prob = "insert(%d) on a full heap changed the heap state" % e
    elif kind == "remove":
        ret = normalise(h.remove())
        if n_queued == 0:
            if ret != "False":
                prob = "remove() on an empty heap returned %s, expected False" % ret
            elif snap(h) != before:
                prob = "remove() on an empty heap changed the heap state"
        else:
            queued = [i for i in range(size) if status[i] == GRAY]
            ext = (min if policy == "min" else max)(key[i] for i in queued)
            if not isinstance(ret, int) or ret not in queued:
                prob = "remove() returned %s which is not a queued element %s" % (ret, queued)
            elif key[ret] != ext:
                prob = ("remove() returned element %s with key %r but the extremal queued "
                        "key is %r (queued keys %s)" % (
                            ret, key[ret], ext, {i: key[i] for i in queued}))
            else:
                status[ret] = BLACK
    else:
        raise ValueError(op)
    new_ref = (tuple(status), tuple(key))
    if prob is None:
        prob = observe(h, size, new_ref)
    return new_ref, prob


def observe(h, size, ref):
    """Truthfulness of is_empty/is_full and of the colours after an op."""
    status, key = ref
    n_queued = sum(1 for s in status if s == GRAY)
    ie, isf = h.is_empty(), h.is_full()
    if bool(ie) != (n_queued == 0):
        return "is_empty() = %r with %d queued elements" % (ie, n_queued)
    if bool(isf) != (n_queued == size):
        return "is_full() = %r with %d queued elements of %d" % (isf, n_queued, size)
    col = [int(x) for x in h.color]
    if col != list(status):
        return "colours %s differ from reference status %s" % (col, list(status))
    return None


def drain_problem(Heap, size, policy, st, ref):
    """Drain a copy: every queued element exactly once, in key order."""
    status, key = ref
    queued = sorted(i for i in range(size) if status[i] == GRAY)
    h = mk_heap(Heap, size, policy, st)
    out = []
    for _ in range(len(queued) + 1):
        r = h.remove()
        if r is False:
            break
        out.append(r)
    try:
        outs = [int(x) for x in out]
    except Exception:
        return "drain returned non-integers %r" % (out,)
    if sorted(outs) != queued:
        return "draining the heap returned %s, queued elements are %s" % (outs, queued)
    ks = [key[i] for i in outs]
    if policy == "min":
        ok = all(ks[i] <= ks[i + 1] for i in range(len(ks) - 1))
    else:
        ok = all(ks[i] >= ks[i + 1] for i in range(len(ks) - 1))
    if not ok:
        return "draining the heap returned keys %s which are not in %s order" % (ks, policy)
    if h.remove() is not False:
        return "heap not empty after draining all queued elements"
    return None


def fingerprint(prob):
    # symptom class = text up to the first number
    import re
    return "Heap: " + re.sub(r"-?\d+(\.\d+)?(e[-+]?\d+)?", "#", prob)[:70]


def expand(Heap, res, seen, frontier, policy, size, keys, st, ref, path, n_q):
    try:
        prob = drain_problem(Heap, size, policy, st, ref)
    except Horizon:
        raise
    except Exception as ex:  # library raised
        prob = "drain raised %r" % (ex,)
    if prob:
        res.violation("drain", {"policy": policy, "size": size, "keys": keys,
                                "ops": list(path), "then": "drain"},
                      prob, "each queued element once, in key order", prob,
                      fingerprint(prob))
        return res.full
    for op in enabled_ops(policy, size, ref, keys):
        h = mk_heap(Heap, size, policy, st)
        try:
            nref, prob = step(h, policy, size, ref, op)
        except Horizon:
            raise
        except Exception as ex:
            nref, prob = ref, "%s raised %r" % (op[0], ex)
        res.transitions += 1
        if prob:
            res.violation("step", {"policy": policy, "size": size, "keys": keys,
                                   "ops": list(path) + [op]},
                          prob, "reference priority queue", prob, fingerprint(prob))
            if res.full:
                return True
            continue
        nst = snap(h)
        j = (nst, nref)
        if j not in seen:
            seen.add(j)
            npath = path + (op,)
            frontier.append((nst, nref, npath))
            if len(npath) == 2 * size and len(res.samples) < 1:
                res.sample({"policy": policy, "size": size, "ops": list(npath)})
        if op[0] == "remove":
            res.outcome((policy, size, n_q, nref[0].count(BLACK)))
    return False


def run_deep(shard, seed):
    from opfython.core.heap import Heap
    _, policy, n, depth, a, b = shard
    size = n + 1
    scale = 1.0 if not seed else [1.0, 0.5, 3.0, 7.25][seed % 4]
    grid = tuple(scale * v for v in range(0, 2 * n + 2, 2))      # values updates/inserts may use
    res = Result()
    for arr in valid_heaps(n)[a:b]:
        # real inserts in level order; keys are the odd numbers (mirrored for the max policy)
        ranks = arr if policy == "min" else tuple(n - 1 - r for r in arr)
        init = [("insert", i, scale * (2 * ranks[i] + 1)) for i in range(n)]
        h = Heap(size, policy)
        ref = ((WHITE,) * size, (None,) * size)
        prob = None
        for op in init:
            ref, prob = step(h, policy, size, ref, op)
            res.transitions += 1
            if prob:
                break
        if prob:
            res.violation("step", {"policy": policy, "size": size, "keys": grid, "ops": init},
                          prob, "reference priority queue", prob, fingerprint(prob))
            if res.full:
                break
            continue
        st0 = snap(h)
        seen = {(st0, ref)}
        frontier = collections.deque([(st0, ref, tuple(init))])
        while frontier:
            st, rf, path = frontier.popleft()
            res.states += 1
            res.nontrivial += 1
            if len(path) - n >= depth:
                # leaf: only the state invariant (drain) is evaluated
                try:
                    prob = drain_problem(Heap, size, policy, st, rf)
                except Exception as ex:
                    prob = "drain raised %r" % (ex,)
                if prob:
                    res.violation("drain", {"policy": policy, "size": size, "keys": grid,
                                            "ops": list(path), "then": "drain"},
                                  prob, "each queued element once, in key order", prob, fingerprint(prob))
                    if res.full:
                        break
                continue
            try:
                with horizon(20.0):
                    stop = expand(Heap, res, seen, frontier, policy, size, grid, st, rf, path,
                                  sum(1 for x in rf[0] if x == GRAY))
            except Horizon as hz:
                res.violation("horizon", {"policy": policy, "size": size, "keys": grid, "ops": list(path)},
                              str(hz), "termination", str(hz), "Heap: no termination")
                stop = res.full
            if stop:
                break
        if res.full:
            break
    res.evaluations = res.transitions
    res.traces = res.transitions
    res.sample({"policy": policy, "size": size, "start_heap_keys": list(valid_heaps(n)[a]),
                "then": "every operation sequence of length <= %d" % depth}, 1)
    return res


def big_ops(policy, size, seed):
    """insert all elements with distinct keys in a scrambled order, interleaving removes and
    improving updates; the heap is drained at the end by the replay."""
    ops = []
    keys = {}
    order = [(i * 37 + 11 * seed) % size for i in range(size)]
    queued = []
    for t, e in enumerate(order):
        k = float((e * 53) % size) + 1000.0
        ops.append(("insert" if t % 2 else "update", e, k))
        keys[e] = k
        queued.append(e)
        if t % 5 == 4:
            ops.append(("remove", -1, 0.0))
        if t % 7 == 3:
            v = queued[(t * 13) % len(queued)]
            nk = keys[v] - 500.5 if policy == "min" else keys[v] + 500.5
            ops.append(("update?", v, nk))
            keys[v] = nk
    return ops


def run_fill(shard, seed):
    from opfython.core.heap import Heap
    _, policy, size, m = shard
    keys = key_table(seed, m)
    res = Result()
    for seq in itertools.product(range(m), repeat=size):
        ops = [("insert", e, keys[seq[e]]) for e in range(size)]
        h = Heap(size, policy)
        ref = ((WHITE,) * size, (None,) * size)
        prob = None
        for op in ops:
            ref, prob = step(h, policy, size, ref, op)
            res.transitions += 1
            if prob:
                break
        if not prob:
            prob = drain_problem(Heap, size, policy, snap(h), ref)
            res.transitions += size
        res.states += 1
        res.evaluations += 1
        res.traces += 1
        if len(set(seq)) < size:
            res.nontrivial += 1
        if prob:
            res.violation("drain", {"policy": policy, "size": size, "ops": [list(o) for o in ops], "then": "drain"},
                          prob, "each queued element once, in key order", prob, fingerprint(prob))
            if res.full:
                break
    res.outcome(shard)
    res.sample({"policy": policy, "size": size, "ops": "every sequence of %d inserts over %d key values" % (size, m),
                "then": "drain"}, 1)
    return res


def run_big(shard, seed):
    from opfython.core.heap import Heap
    _, policy, size = shard
    res = Result()
    h = Heap(size, policy)
    ref = ((WHITE,) * size, (None,) * size)
    done = []
    for op in big_ops(policy, size, seed):
        kind, e, v = op
        if kind == "update?":
            if ref[0][e] != GRAY:
                continue           # already removed: updates of removed elements are outside the property
            kind = "update"
        try:
            ref, prob = step(h, policy, size, ref, (kind, e, v))
        except Exception as ex:
            prob = "%s raised %r" % (kind, ex)
        done.append([kind, e, v])
        res.transitions += 1
        if prob:
            res.violation("step", {"policy": policy, "size": size, "ops": done}, prob,
                          "reference priority queue", prob, fingerprint(prob))
            break
    if not res.violations:
        prob = drain_problem(Heap, size, policy, snap(h), ref)
        if prob:
            res.violation("drain", {"policy": policy, "size": size, "ops": done, "then": "drain"}, prob,
                          "each queued element once, in key order", prob, fingerprint(prob))
    res.states += 1
    res.nontrivial += 1
    res.evaluations = res.transitions
    res.traces = res.transitions
    res.sample({"policy": policy, "size": size, "ops": "%d operations" % len(done)}, 1)
    return res


def run(shard, seed):
    from opfython.core.heap import Heap
    import opfython.utils.constants as c

    if shard[0] == "deep":
        return run_deep(shard, seed)
    if shard[0] == "bigheap":
        return run_big(shard, seed)
    if shard[0] == "fill":
        return run_fill(shard, seed)
    if len(shard) == 4:
        return _run_bfs(heap_class(shard[3]), c, shard[:3], seed, shard[3])
    return _run_bfs(Heap, c, shard, seed)


def _run_bfs(Heap, c, shard, seed, how=None):
    via_setter = bool(how)
    policy, size, m = shard
    keys = key_table(seed, m)
    REINSERT[0] = (m == "re2")
    res = Result()
    st0 = ((c.FLOAT_MAX,) * size, (WHITE,) * size, (-1,) * size, (-1,) * size, -1)
    ref0 = ((WHITE,) * size, (None,) * size)
    # check that a fresh heap looks like st0 (so rebuilt heaps are real states)
    h = Heap(size, policy)
    if snap(h) != st0:
        res.violation("fresh", {"policy": policy, "size": size, "ops": []},
                      repr(snap(h)), repr(st0),
                      "a fresh heap is not all-white/empty", "Heap: fresh state")
        return res
    seen = {(st0, ref0)}
    frontier = collections.deque([(st0, ref0, ())])
    while frontier:
        st, ref, path = frontier.popleft()
        res.states += 1
        n_q = sum(1 for s in ref[0] if s == GRAY)
        if n_q >= 2:
            res.nontrivial += 1
        # one horizon per expanded state (drain + all enabled operations)
        try:
            with horizon(20.0):
                stop = expand(Heap, res, seen, frontier, policy, size, keys, st, ref, path, n_q)
        except Horizon as hz:
            res.violation("horizon", {"policy": policy, "size": size, "keys": keys,
                                      "ops": list(path), "then": "any enabled operation"},
                          str(hz), "termination", str(hz), "Heap: no termination")
            stop = res.full
        if stop:
            break
    res.evaluations = res.transitions
    res.traces = res.transitions  # every transition compared with the reference
    if via_setter:
        for v in res.violations:
            v["program"] = dict(v["program"], via_setter=how)
    return res


def replay(case):
    from opfython.core.heap import Heap

    prog = case["program"]
    policy, size = prog["policy"], prog["size"]
    ops = [tuple(o) for o in prog["ops"]]
    Heap = heap_class(prog.get("via_setter") or False)
    h = Heap(size, policy)
    ref = ((WHITE,) * size, (None,) * size)
    for i, op in enumerate(ops):
        try:
            ref, prob = step(h, policy, size, ref, (op[0], int(op[1]), op[2]))
        except Horizon:
            raise
        except Exception as ex:
            prob = "%s raised %r" % (op[0], ex)
        if prob:
            return {"check": "step", "program": prog, "observed": prob,
                    "allowed": "reference priority queue",
                    "explanation": "op %d %s: %s" % (i, list(op), prob),
                    "fingerprint": fingerprint(prob)}
    if prog.get("then") == "drain" or True:
        prob = drain_problem(Heap, size, policy, snap(h), ref)
        if prob:
            return {"check": "drain", "program": prog, "observed": prob,
                    "allowed": "each queued element once, in key order",
                    "explanation": prob, "fingerprint": fingerprint(prob)}
    return None
