"""C09 - a prediction depends only on the fitted model and the sample itself.
Explorers E + B: all batches (length <= 3, every order, duplicates) and all
histories of <= 2 predict calls over a query pool, for every fitted model of
the bounded families; the model's prediction-relevant state is hashed after
every call (closure of the history space at one state)."""
import hashlib
import itertools

import numpy as np

from mc import enum as E
from mc import knn as K
from mc import sup
from mc.runner import Result, horizon, Horizon

ID = "C09"
TITLE = "a prediction depends only on the model and the sample"
RULE = ("models: all four kinds fitted on every point sequence over {0..3} with n=3,4 (thorough 5) "
        "(several labelings; KNN/unsupervised with max_k in 1..2); query pool of 5 points (two "
        "copies of training samples, a midpoint, a far point, another lattice point); ALL batches "
        "over the pool of length <= 3 (batch positions 0..2 are below the training-set size) and "
        "ALL histories of two predict calls over batches of length <= 2; reference = the label "
        "(and cluster) the sample receives when predicted alone on the pristine model; the "
        "prediction-relevant model state (everything but the 'relevant' flags) is hashed after "
        "every call and must not change; two-dimensional samples with batches in Fortran order / as a "
        "transposed view; an earlier predict call interrupted at each of its metric calls. Non-trivial = the batch has >= 2 samples or the call "
        "is not the first")
ASSUMPTIONS = [
    "the 'relevant' flags, which predict is allowed to write and never reads, are excluded from the state hash",
    "n <= 4 (quick) / 5 (thorough); query pool of 5 points; batches <= 3; histories <= 2 calls",
]
KINDS = ["SupervisedOPF", "SemiSupervisedOPF", "KNNSupervisedOPF", "UnsupervisedOPF"]


def bounds(tier):
    return {"n": [3, 4] + ([5] if tier == "thorough" else []), "kinds": KINDS,
            "batches": "all of length <= 3 over 6 queries (258)",
            "histories": "all pairs of batches of length <= 2 (1764)" + (" for n=3 only" if tier == "quick" else ""),
            "metrics": ["euclidean"] + (["log_squared_euclidean", "manhattan"] if tier == "thorough" else [])}


TIER = ["quick"]


def plan(tier, seed):
    TIER[0] = tier
    shards = []
    mets = ["euclidean"] + (["log_squared_euclidean", "manhattan"] if tier == "thorough" else [])
    for mt in mets:
        for n in (3, 4) + ((5,) if tier == "thorough" else ()):
            step = 4 if n == 3 else (4 if n == 4 else 8)
            for a, b in E.chunks(4 ** n, step):
                for kind in KINDS:
                    shards.append((kind, n, mt, a, b))
    # two-dimensional samples, batches handed over in Fortran order / as a transposed view
    for kind in KINDS:
        for lay in ("F", "T", "R", "N"):
            for a, b in E.chunks(81, 27):
                shards.append(("2d", kind, lay, a, b))
    # batches of 33..81 samples (beyond any block size of a batched implementation)
    for kind in KINDS:
        shards.append(("big", kind))
    return shards


def warm():
    from mc.warm import warm_metrics
    warm_metrics()


def programs2d(shard, seed):
    _, kind, lay, a, b = shard
    pts = E.lattice("2d", seed)
    for si in range(a, b):
        seq = E.sequence_at(9, 3, si * 9)
        X = [list(pts[i]) for i in seq]
        pool = [X[0], X[-1], [0.5, 1.5], [40.0, 50.0], [2.0, 0.0], [1.0, 1.0]]
        lab = [0, 1, 0]
        base = {"model": kind, "mode": "features", "X": X, "metric": "euclidean", "labels": lab, "pool": pool,
                "layout": lay, "two_call_histories": False}
        if kind == "SemiSupervisedOPF":
            base["X"] = X + [[0.5, 0.5]]
            base["n_unlabeled"] = 1
        elif kind == "KNNSupervisedOPF":
            base["max_k"] = 2
            base["val"] = {"X": X, "labels": lab}
        elif kind == "UnsupervisedOPF":
            base["min_k"] = 1
            base["max_k"] = 2
        yield base


def programs(shard, seed):
    if shard[0] == "2d":
        yield from programs2d(shard, seed)
        return
    if shard[0] == "big":
        yield from big_programs(shard, seed)
        return
    kind, n, metric, a, b = shard
    pts = E.lattice("1d", seed)
    for si in range(a, b):
        seq = E.sequence_at(len(pts), n, si)
        X = [list(pts[i]) for i in seq]
        xs = sorted({p[0] for p in X})
        other = [p[0] for p in pts if p[0] not in xs]
        pool = [X[0], X[-1], [(xs[0] + xs[-1]) / 2.0 + 0.25], [xs[-1] * 9.0 + 50.0],
                [other[0]] if other else [xs[0] - 1.5],
                [1e200]]       # so far away that every distance overflows to +inf
        labs = E.labelings(n, max_classes=2) if n <= 3 else [tuple(i % 2 for i in range(n)),
                                                             tuple(1 if i >= n // 2 else 0 for i in range(n))]
        for lab in labs:
            lab = list(E.rename_classes(lab, seed))
            base = {"model": kind, "mode": "features", "X": X, "metric": metric, "labels": lab,
                    "pool": pool, "two_call_histories": bool(n == 3 or TIER[0] == "thorough")}
            if kind in ("SupervisedOPF", "SemiSupervisedOPF"):
                if kind == "SemiSupervisedOPF":
                    p = dict(base)
                    p["X"] = X + [[xs[0] + 0.5]]
                    p["n_unlabeled"] = 1
                    yield p
                else:
                    yield base
            elif kind == "KNNSupervisedOPF":
                for mk in (1, 2):
                    if mk <= n - 1:
                        p = dict(base)
                        p["max_k"] = mk
                        p["val"] = {"X": X, "labels": lab}
                        yield p
                        if mk == 2:          # the model validation would pick k = 2 for
                            q = dict(p)
                            q["force_k"] = 2
                            yield q
            else:
                for mk in (1, 2):
                    if mk <= n - 1:
                        p = dict(base)
                        p["min_k"] = 1
                        p["max_k"] = mk
                        yield p
                        if mk == 2:
                            q = dict(p)
                            q["force_k"] = 2
                            yield q


def fit(prog):
    if prog["model"] in ("SupervisedOPF", "SemiSupervisedOPF"):
        m, _ = sup.fit_program(prog, fresh=True)
    else:
        from mc.props import c13
        with c13.force_k(prog):
            m = K.fit_program(prog)
        if prog["model"] == "UnsupervisedOPF":
            m.propagate_labels()
    return m


def digest(m):
    sg = m.subgraph
    parts = []
    for nd in sg.nodes:
        parts.append((float(nd.cost), int(nd.pred), int(nd.predicted_label), int(nd.label),
                      int(nd.status), float(nd.density), int(nd.root), int(nd.cluster_label),
                      float(nd.radius), nd.features.tobytes(), tuple(int(a) for a in nd.adjacency)))
    extra = tuple(repr(getattr(sg, a, None)) for a in ("best_k", "n_clusters", "constant", "density",
                                                        "min_density", "max_density", "trained"))
    return hashlib.sha1(repr((parts, list(sg.idx_nodes), extra)).encode()).hexdigest()


def predict(m, prog, batch):
    Xb = np.array([prog["pool"][i] for i in batch], dtype=float)
    if prog.get("layout"):
        from mc import layout as LY
        Xb = LY.apply(Xb, prog["layout"])
    out = m.predict(Xb)
    if prog["model"] == "UnsupervisedOPF":
        return [(int(a), int(b)) for a, b in zip(out[0], out[1])]
    return [(int(a), 0) for a in out]


def big_case(prog, res=None):
    """Batches much larger than any block size a batched implementation might use: every sample of an
    81-point half-grid pool alone, then the whole pool in three orders and two prefixes."""
    try:
        m = fit(prog)
    except Horizon:
        raise
    except Exception as ex:
        return viol(prog, None, "fit raised %r" % (ex,), "fit raised")
    n = len(prog["pool"])
    try:
        alone = [predict(m, prog, [i])[0] for i in range(n)]
        orders = [list(range(n)), list(range(n - 1, -1, -1)), [(7 * i + 3) % n for i in range(n)],
                  list(range(33)), list(range(n - 40, n))]
        for order in orders:
            got = predict(m, prog, order)
            if res is not None:
                res.transitions += 1
                res.evaluations += len(order)
                res.traces += 1
                res.nontrivial += 1
            for pos, (i, g) in enumerate(zip(order, got)):
                if g != alone[i]:
                    return viol(prog, [order], "sample %s receives (label, cluster) %s when predicted alone but %s at "
                                "position %d of a batch of %d" % (prog["pool"][i], alone[i], g, pos, len(order)),
                                "alone vs batch differ")
    except Horizon:
        raise
    except Exception as ex:
        return viol(prog, None, "predict raised %r" % (ex,), "predict raised")
    return None


def big_programs(shard, seed):
    _, kind = shard
    sc = [1.0, 0.5, 2.0, 3.0][seed % 4] if seed else 1.0
    grid = [[sc * a, sc * b] for a in range(3) for b in range(3)]
    pool = [[sc * 0.5 * a - sc, sc * 0.5 * b - sc] for a in range(9) for b in range(9)]
    labsets = ([0, 1, 0, 1, 0, 1, 0, 1, 0], [0, 0, 0, 1, 1, 1, 2, 2, 2], [1, 1, 2, 1, 2, 2, 1, 2, 1])
    for X in (grid, grid[::-1], grid[4:] + grid[:4], grid + [grid[4]]):
        for lab in labsets:
            lab = (list(lab) + [lab[4]])[:len(X)]
            base = {"model": kind, "mode": "features", "X": X, "metric": "euclidean", "labels": lab,
                    "pool": pool, "big": True}
            if kind == "SemiSupervisedOPF":
                yield dict(base, X=X + [[sc * 0.5, sc * 0.5]], n_unlabeled=1)
            elif kind == "KNNSupervisedOPF":
                for mk in (1, 2, 3):
                    yield dict(base, max_k=mk, force_k=mk, val={"X": X, "labels": lab})
            elif kind == "UnsupervisedOPF":
                for mk in (1, 2, 3):
                    yield dict(base, min_k=1, max_k=mk, force_k=mk)
            else:
                yield base


def run_case(prog, res=None, only=None):
    if prog.get("big"):
        return big_case(prog, res)
    try:
        m = fit(prog)
    except Horizon:
        raise
    except Exception as ex:
        return viol(prog, None, "fit raised %r" % (ex,), "fit raised %s" % type(ex).__name__)
    nq = len(prog["pool"])
    d0 = digest(m)
    # reference: each pool sample predicted alone; the state must not change, so the
    # same model object is the "pristine" model for every later call
    ref = []
    for i in range(nq):
        try:
            ref.append(predict(m, prog, [i])[0])
        except Horizon:
            raise
        except Exception as ex:
            return viol(prog, [[i]], "predict raised %r" % (ex,), "predict raised %s" % type(ex).__name__)
        if digest(m) != d0:
            return viol(prog, [[i]], "predicting sample %s alone changed the model's "
                        "prediction-relevant state" % prog["pool"][i], "predict changes model state")
    # exception safety: an earlier predict call interrupted at each of its metric calls must not
    # influence later calls on the same model
    if only is None or only == "crash":
        from mc.faults import FaultyFn, InjectedFault
        orig_fn = m.distance_fn
        cnt = FaultyFn(orig_fn)
        m.distance_fn = cnt
        try:
            predict(m, prog, [2, 0])
        except Exception:
            pass
        m.distance_fn = orig_fn
        for k in range(1, cnt.calls + 1):
            m.distance_fn = FaultyFn(orig_fn, k)
            try:
                predict(m, prog, [2, 0])
            except InjectedFault:
                pass
            except Exception:
                pass
            m.distance_fn = orig_fn
            for batch in ([0], [1, 2], [3]):
                try:
                    got = predict(m, prog, batch)
                except Horizon:
                    raise
                except Exception as ex:
                    return viol(prog, "crash", "predict raised %r after an earlier interrupted call" % (ex,),
                                "predict raised after an interrupted call")
                if res is not None:
                    res.transitions += 2
                for qi, g in zip(batch, got):
                    if g != ref[qi]:
                        return viol(prog, "crash", "sample %s receives %s normally but %s in the first call after "
                                    "a predict call that was interrupted at its metric call %d"
                                    % (prog["pool"][qi], ref[qi], g, k), "prediction depends on an earlier interrupted call")
        if only == "crash":
            return None
    if only is not None:
        histories = [only]
    else:
        b1 = [list(b) for L in (1, 2, 3) for b in itertools.product(range(nq), repeat=L)]
        b2 = [list(b) for L in (1, 2) for b in itertools.product(range(nq), repeat=L)]
        histories = [[b] for b in b1]
        if prog.get("two_call_histories", True):
            histories += [[x, y] for x in b2 for y in b2]
    for hist in histories:
        for ci, batch in enumerate(hist):
            try:
                got = predict(m, prog, batch)
            except Horizon:
                raise
            except Exception as ex:
                return viol(prog, hist, "predict raised %r" % (ex,), "predict raised %s" % type(ex).__name__)
            if res is not None:
                res.transitions += 1
            for pos, (qi, g) in enumerate(zip(batch, got)):
                if g != ref[qi]:
                    return viol(prog, hist, "sample %s receives (label, cluster) %s when predicted "
                                "alone but %s at position %d of batch %s (call %d of history %s)"
                                % (prog["pool"][qi], ref[qi], g, pos, batch, ci, hist),
                                "prediction depends on batch position / companions / history")
            if len(got) != len(batch):
                return viol(prog, hist, "predict returned %d results for %d samples" % (len(got), len(batch)),
                            "prediction count")
        if res is not None:
            res.evaluations += 1
            res.traces += 1
            if len(hist) > 1 or len(hist[0]) > 1:
                res.nontrivial += 1
    if digest(m) != d0:
        return viol(prog, None, "the model's prediction-relevant state changed during predict calls",
                    "predict changes model state")
    if res is not None:
        res.outcome((prog["model"][0], tuple(ref)))
    return None


def viol(prog, hist, prob, sym):
    p = dict(prog)
    p["history"] = hist
    return {"check": "predict-independence", "program": p, "observed": prob,
            "allowed": "same outcome for the same sample in every batch and history",
            "explanation": prob, "fingerprint": "%s.predict: %s" % (prog["model"], sym)}


def run(shard, seed):
    res = Result()
    first = True
    for prog in programs(shard, seed):
        try:
            with horizon(60.0):
                v = run_case(prog, res)
        except Horizon as hz:
            v = viol(prog, None, str(hz), "no termination")
        res.states += 1
        if first:
            res.sample(prog, 1)
            first = False
        if v:
            res.violations.append(v)
            if res.full:
                break
    return res


def replay(case):
    p = case["program"]
    return run_case(p, None, p.get("history"))
