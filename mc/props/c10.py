"""C10 - pre-computed distances are equivalent to computing the metric on the
fly.  Explorer E: datasets x every ordered train index set x metrics x file
formats x models; differential oracle between two models differing only in
pre_computed_distance; plus get_distances()."""
import itertools
import os
import shutil
import tempfile

import numpy as np

from mc import enum as E
from mc.oracles import axioms
from mc.runner import Result, horizon, Horizon, scratch_dir

ID = "C10"
TITLE = "pre-computed distances == on-the-fly"
RULE = ("datasets: every point sequence over {0..3} of length 4 plus fixed 5-(thorough 6-)point "
        "sets (duplicates, zeros; shifted positive for ratio metrics); the matrix is written by "
        "the library's own pre_compute_distance to .txt and to .csv; EVERY ordered train index "
        "set of size 2..N-1 with the complementary test set (= every split split_with_index "
        "could return); models: supervised, semi-supervised (unlabeled rows at n_labeled+i), "
        "unsupervised (all k ranges <= 2); oracle: the file-fed and the feature-fed model have "
        "identical node state, conquest order, best_k, n_clusters and predictions (bit-exact), "
        "and get_distances() equals the metric on every ordered pair (min-max rescaled when "
        "normalize=True); datasets in Fortran order / as transposed views; models fitted on the whole file, "
        "where get_distances(normalize=True) must not disturb later calls. Non-trivial = the train index set is not the identity prefix "
        "(index arrays really select/reorder rows)")
ASSUMPTIONS = [
    "quick runs 12 representative metrics (incl. asymmetric and decorated ones), thorough all 47",
    "N <= 5 (quick) / 6 (thorough) rows per dataset",
    "the %.18e text round trip of numpy.savetxt/loadtxt is exact for float64 (trusted)",
]
QUICK_METRICS = ["log_squared_euclidean", "euclidean", "manhattan", "canberra", "kullback_leibler",
                 "jaccard", "pearson", "chord", "gaussian", "bhattacharyya", "statistic", "jeffreys"]
# gaussian: d(x, x) = 1, not 0; bhattacharyya: self-distances print as -0.0 or negative numbers;
# statistic: antisymmetric; jeffreys: symmetric only up to the last bit
FIXED = [
    [[0.0, 0.0], [1.0, 0.0], [0.0, 2.0], [3.0, 3.0], [1.0, 0.0]],
    [[0.0, 1.0], [2.0, 2.0], [5.0, 1.0], [5.0, 4.0], [0.5, 0.25]],
    [[0.0, 0.0], [1.0, 0.0], [0.0, 2.0], [3.0, 3.0], [1.0, 0.0], [4.0, 1.0]],
]
FIXED_LABELS = [[0, 1, 0, 1, 1], [0, 0, 1, 1, 0], [0, 1, 0, 1, 1, 0]]


def is_norm(metric):
    return metric in axioms.R_CLASS


def bounds(tier):
    return {"metrics": QUICK_METRICS if tier == "quick" else "all 47",
            "datasets": "P(4,{0..3}) (256) for 2 metrics; %d fixed sets for all listed metrics"
            % (2 if tier == "quick" else 3), "formats": ["txt", "csv"],
            "models": ["SupervisedOPF", "SemiSupervisedOPF", "UnsupervisedOPF"]}


def plan(tier, seed):
    shards = []
    mets = QUICK_METRICS if tier == "quick" else axioms.NAMES
    for mt in mets:
        for fi in range(2 if tier == "quick" else 3):
            for fmt in ("txt", "csv"):
                shards.append(("fixed", fi, mt, fmt))
    for mt in ("log_squared_euclidean", "euclidean"):
        for a, b in E.chunks(256, 16):
            for fmt in ("txt", "csv"):
                shards.append(("lat", mt, fmt, a, b))
    # the dataset need not be float64: integer and single-precision feature matrices
    for mt in ("euclidean", "log_squared_euclidean", "bray_curtis"):
        for dt in ("int64", "float32"):
            for fmt in ("txt", "csv"):
                shards.append(("fixed-dtype", 0, mt, fmt, dt))
    # the dataset handed over in Fortran order / as a transposed view
    for mt in ("euclidean", "canberra"):
        for lay in ("F", "T", "R", "N"):
            for fmt in ("txt", "csv"):
                shards.append(("fixed-layout", 0, mt, fmt, lay))
    return shards


def warm():
    from mc.warm import warm_metrics, warm_dtypes
    warm_metrics()
    warm_dtypes(["euclidean", "log_squared_euclidean", "bray_curtis", "squared_euclidean"])


def dataset(shard, seed):
    sc = [1.0, 0.5, 2.0, 3.0][seed % 4] if seed else 1.0
    if shard[0] == "fixed-layout":
        _, fi, metric, fmt, lay = shard
        X = np.array(FIXED[fi], dtype=float) * sc
        if not is_norm(metric):
            X = X + 0.5
        LAYOUT[0] = lay
        yield X.tolist(), FIXED_LABELS[fi], metric, fmt
        LAYOUT[0] = None
    elif shard[0] == "fixed-dtype":
        _, fi, metric, fmt, dt = shard
        X = np.array(FIXED[fi], dtype=float) * (2.0 if not seed else float(1 + seed % 3))
        if not is_norm(metric):
            X = X + 1.0
        if dt == "float32":
            X = X + 0.3          # not representable in single precision
        DTYPE[0] = dt
        yield X.tolist(), FIXED_LABELS[fi], metric, fmt
        DTYPE[0] = None
    elif shard[0] == "fixed":
        _, fi, metric, fmt = shard
        X = np.array(FIXED[fi], dtype=float) * sc
        if not is_norm(metric):
            X = X + 0.5
        yield X.tolist(), FIXED_LABELS[fi], metric, fmt
    else:
        _, metric, fmt, a, b = shard
        pts = E.lattice("1d", seed)
        for si in range(a, b):
            seq = E.sequence_at(4, 4, si)
            yield [list(pts[i]) for i in seq], [0, 1, 0, 1], metric, fmt


DTYPE = [None]


LAYOUT = [None]


def as_data(prog_or_X, dt, lay=None):
    X = np.array(prog_or_X, dtype=float).astype(np.dtype(dt) if dt else float)
    lay = lay or LAYOUT[0]
    if lay == "F":
        X = np.asfortranarray(X)
    elif lay == "T":
        X = np.ascontiguousarray(X.T).T
    elif lay == "R":
        X.flags.writeable = False
    elif lay == "N":
        X = np.ascontiguousarray(X[::-1, ::-1])[::-1, ::-1]
    return X


def splits(N):
    for size in range(2, N):
        for train in itertools.permutations(range(N), size):
            yield list(train), [i for i in range(N) if i not in train]


def model_programs(X, Y, metric, fmt):
    N = len(X)
    base = {"data": X, "labels": Y, "metric": metric, "fmt": fmt}
    if DTYPE[0]:
        base["dtype"] = DTYPE[0]
    if LAYOUT[0]:
        base["layout"] = LAYOUT[0]
    for train, test in splits(N):
        ylab = [Y[i] for i in train]
        if len(set(ylab)) >= 2:
            p = dict(base)
            p.update(model="SupervisedOPF", train=train, test=test)
            yield p
            if train == sorted(train):
                # index sets need not be disjoint or duplicate-free: a test row that is also a
                # training row, and a training row listed twice (the diagonal of the file is read)
                p = dict(base)
                p.update(model="SupervisedOPF", train=train, test=test + [train[0], train[-1]])
                yield p
                p = dict(base)
                p.update(model="SupervisedOPF", train=train + [train[0]], test=test)
                yield p
                if len(train) >= 3:
                    p = dict(base)
                    p.update(model="UnsupervisedOPF", train=train + [train[1]], test=test + [train[0]],
                             min_k=1, max_k=2)
                    yield p
        for mx in (1, 2):
            if mx <= len(train) - 1:
                for mn in range(1, mx + 1):
                    p = dict(base)
                    p.update(model="UnsupervisedOPF", train=train, test=test, min_k=mn, max_k=mx)
                    yield p
    # semi-supervised: labeled rows 0..nl-1 (any order), unlabeled nl..nl+nu-1, test = the rest
    for nl in range(2, N):
        for nu in range(0, N - nl):
            if nl + nu >= N:
                continue
            for train in itertools.permutations(range(nl)):
                ylab = [Y[i] for i in train]
                if len(set(ylab)) < 2:
                    continue
                p = dict(base)
                p.update(model="SemiSupervisedOPF", train=list(train), n_unlabeled=nu,
                         test=list(range(nl + nu, N)))
                yield p


def write_matrix(X, metric, fmt, tmpdir, dt=None, lay=None):
    import opfython.math.general as g
    path = os.path.join(tmpdir, "dist.%s.v2.%s" % (metric, fmt))
    g.pre_compute_distance(as_data(X, dt, lay), path, metric)
    return path


def node_state(m):
    sg = m.subgraph
    out = []
    for nd in sg.nodes:
        out.append((float(nd.cost), int(nd.pred), int(nd.predicted_label), int(nd.status),
                    int(nd.cluster_label), int(nd.root), float(nd.density), int(nd.label)))
    extra = tuple(getattr(sg, a, None) for a in ("best_k", "n_clusters"))
    return out, [int(i) for i in sg.idx_nodes], tuple(None if e is None else int(e) for e in extra)


def build_pair(prog, path):
    import opfython.models as M
    X = as_data(prog["data"], prog.get("dtype"), prog.get("layout"))
    Y = np.array(prog["labels"], dtype=int)
    tr = np.array(prog["train"], dtype=int)
    te = np.array(prog["test"], dtype=int)
    kind = prog["model"]
    metric = prog["metric"]
    outs = []
    for pre in (None, path):
        if kind == "UnsupervisedOPF":
            m = M.UnsupervisedOPF(min_k=prog["min_k"], max_k=prog["max_k"], distance=metric,
                                  pre_computed_distance=pre)
            m.fit(X[tr].copy(), Y[tr].copy(), I_train=tr.copy())
            m.propagate_labels()
            pr = m.predict(X[te].copy(), I_val=te.copy())
            pr = ([int(a) for a in pr[0]], [int(a) for a in pr[1]])
        elif kind == "SemiSupervisedOPF":
            nl, nu = len(tr), int(prog["n_unlabeled"])
            m = M.SemiSupervisedOPF(distance=metric, pre_computed_distance=pre)
            m.fit(X[tr].copy(), Y[tr].copy(), X[nl:nl + nu].copy(), I_train=tr.copy())
            pr = [int(a) for a in m.predict(X[te].copy(), I_val=te.copy())]
        else:
            m = M.SupervisedOPF(distance=metric, pre_computed_distance=pre)
            m.fit(X[tr].copy(), Y[tr].copy(), I_train=tr.copy())
            pr = [int(a) for a in m.predict(X[te].copy(), I_val=te.copy())]
        outs.append((node_state(m), pr, m))
    return outs


def compare_case(prog, path, res=None):
    try:
        (s_fly, p_fly, m_fly), (s_pre, p_pre, m_pre) = build_pair(prog, path)
    except Horizon:
        raise
    except Exception as ex:
        return viol(prog, "training/predicting raised %r" % (ex,), "raised %s" % type(ex).__name__)
    if res is not None:
        res.transitions += 4
        res.outcome((prog["model"][0], len(prog["train"]), tuple(p_fly) if not isinstance(p_fly, tuple)
                     else tuple(p_fly[0])))
    if s_fly != s_pre:
        names = ["cost", "pred", "assigned label", "prototype status", "cluster", "root", "density", "label"]
        for i, (a, b) in enumerate(zip(s_fly[0], s_pre[0])):
            if a != b:
                f = [names[k] for k in range(len(a)) if a[k] != b[k]]
                return viol(prog, "training sample %d differs in %s: on-the-fly %r, pre-computed %r"
                            % (i, f, a, b), "forest state differs")
        return viol(prog, "conquest order / best_k / n_clusters differ: %r vs %r" % (s_fly[1:], s_pre[1:]),
                    "forest state differs")
    if p_fly != p_pre:
        return viol(prog, "predictions differ: on-the-fly %r, pre-computed %r" % (p_fly, p_pre),
                    "predictions differ")
    return None


def distances_case(prog, res=None):
    """get_distances() of a fitted model == metric on every ordered pair."""
    import opfython.models as M
    import opfython.math.distance as D
    X = as_data(prog["data"], prog.get("dtype"))
    Y = np.array(prog["labels"], dtype=int)
    tr = np.array(prog["train"], dtype=int)
    fn = D.DISTANCES[prog["metric"]]
    try:
        m = M.SupervisedOPF(distance=prog["metric"])
        m.fit(X[tr].copy(), Y[tr].copy())
        got = np.asarray(m.get_distances(), dtype=float)
        gotn = np.asarray(m.get_distances(normalize=True), dtype=float)
    except Horizon:
        raise
    except Exception as ex:
        return viol(prog, "get_distances raised %r" % (ex,), "get_distances raised %s" % type(ex).__name__)
    n = len(tr)
    want = np.array([[fn(X[tr[a]].copy(), X[tr[b]].copy()) for b in range(n)] for a in range(n)])
    if res is not None:
        res.transitions += 2
    if got.shape != want.shape or not np.array_equal(got, want):
        return viol(prog, "get_distances() = %s differs from the metric on the training pairs %s"
                    % (got.tolist(), want.tolist()), "get_distances differs")
    if want.max() == want.min():
        if res is not None:
            res.skip("normalisation undefined (max == min)")
        return None
    wn = (want - want.min()) / (want.max() - want.min())
    if gotn.shape != wn.shape or not np.allclose(gotn, wn, rtol=1e-12, atol=1e-15):
        return viol(prog, "get_distances(normalize=True) is not the min-max rescaling onto [0,1]",
                    "normalised distances differ")
    return None


def whole_file_case(prog, path, res=None):
    """A model fitted on the WHOLE file in file order: get_distances(normalize=True) must not disturb
    later calls (get_distances(), a re-fit)."""
    import opfython.models as M
    import opfython.math.distance as D
    X = as_data(prog["data"], prog.get("dtype"), prog.get("layout"))
    Y = np.array(prog["labels"], dtype=int)
    N = len(X)
    fn = D.DISTANCES[prog["metric"]]
    want = np.array([[fn(X[a].copy(), X[b].copy()) for b in range(N)] for a in range(N)])
    try:
        for use_index in (True, False):
            m = M.SupervisedOPF(distance=prog["metric"], pre_computed_distance=path)
            kw = {"I_train": np.arange(N)} if use_index else {}
            m.fit(X.copy(), Y.copy(), **kw)
            s0 = node_state(m)
            m.get_distances(normalize=True)
            got = np.asarray(m.get_distances(), dtype=float)
            if not np.array_equal(got, want):
                return viol(prog, "after get_distances(normalize=True), get_distances() no longer returns the "
                            "metric on the training pairs", "get_distances changed by an earlier normalised call")
            m.fit(X.copy(), Y.copy(), **kw)
            if node_state(m) != s0:
                return viol(prog, "after get_distances(normalize=True) a re-fit of the file-fed model gives a "
                            "different forest", "re-fit differs after get_distances(normalize=True)")
            if res is not None:
                res.transitions += 4
    except Horizon:
        raise
    except Exception as ex:
        return viol(prog, "whole-file history raised %r" % (ex,), "raised %s" % type(ex).__name__)
    return None


def viol(prog, prob, sym):
    site = "pre_compute_distance[.%s]" % prog["fmt"] if sym.startswith("raised") else prog["model"]
    return {"check": "pre-computed-vs-on-the-fly", "program": prog, "observed": prob,
            "allowed": "identical forest state and predictions", "explanation": prob,
            "fingerprint": "%s: %s" % (site, sym)}


def run(shard, seed):
    res = Result()
    tmpdir = tempfile.mkdtemp(prefix="c10-", dir=scratch_dir())
    try:
        first = True
        held = {}          # what each file held before it was written again (files are re-used by name)
        for X, Y, metric, fmt in dataset(shard, seed):
            before = held.get((metric, fmt))
            held[(metric, fmt)] = X
            n_before = len(res.violations)
            if before is not None:
                res.count("files_written_over_an_existing_file")
            try:
                path = write_matrix(X, metric, fmt, tmpdir, DTYPE[0])
            except Exception as ex:
                res.violations.append(viol({"data": X, "labels": Y, "metric": metric, "fmt": fmt,
                                            "model": "SupervisedOPF", "train": [0, 1], "test": [2]},
                                           "pre_compute_distance raised %r" % (ex,),
                                           "raised %s (writing)" % type(ex).__name__))
                break
            res.states += 1
            wp = {"data": X, "labels": Y, "metric": metric, "fmt": fmt, "model": "SupervisedOPF",
                  "train": list(range(len(X))), "test": [], "whole_file": True}
            if DTYPE[0]:
                wp["dtype"] = DTYPE[0]
            if LAYOUT[0]:
                wp["layout"] = LAYOUT[0]
            if len(set(Y)) >= 2:
                v = whole_file_case(wp, path, res)
                res.evaluations += 1
                res.traces += 1
                if v:
                    if before is not None:
                        v["program"] = dict(v["program"], file_held=before)
                    res.violations.append(v)
                    if res.full:
                        return res
            for prog in model_programs(X, Y, metric, fmt):
                try:
                    with horizon(20.0):
                        v = compare_case(prog, path, res)
                        if v is None and prog["model"] == "SupervisedOPF":
                            v = distances_case(prog, res)
                except Horizon as hz:
                    v = viol(prog, str(hz), "no termination")
                res.evaluations += 1
                res.traces += 1
                if prog["train"] != list(range(len(prog["train"]))):
                    res.nontrivial += 1
                if first:
                    res.sample(prog, 1)
                    first = False
                if v:
                    res.violations.append(v)
                    if res.full:
                        break
                    if v["fingerprint"].startswith("pre_compute_distance"):
                        break  # the file itself is unusable; every split repeats it
            if before is not None:
                # part of the history of these cases: the file existed, holding another matrix
                for v in res.violations[n_before:]:
                    if "file_held" not in v["program"]:
                        v["program"] = dict(v["program"], file_held=before)
            if res.full:
                return res
    finally:
        shutil.rmtree(tmpdir, ignore_errors=True)
    return res


def replay(case):
    prog = case["program"]
    tmpdir = tempfile.mkdtemp(prefix="c10-", dir=scratch_dir())
    try:
        try:
            if prog.get("file_held") is not None:
                # the file already existed, holding the matrix of another dataset
                write_matrix(prog["file_held"], prog["metric"], prog["fmt"], tmpdir, prog.get("dtype"))
            path = write_matrix(prog["data"], prog["metric"], prog["fmt"], tmpdir, prog.get("dtype"), prog.get("layout"))
        except Exception as ex:
            return viol(prog, "pre_compute_distance raised %r" % (ex,),
                        "raised %s (writing)" % type(ex).__name__)
        if prog.get("whole_file"):
            v = whole_file_case(prog, path)
        else:
            v = compare_case(prog, path)
            if v is None and prog["model"] == "SupervisedOPF":
                v = distances_case(prog)
        if v is not None and prog.get("file_held") is not None:
            v["program"] = dict(v["program"], file_held=prog["file_held"])
        return v
    finally:
        shutil.rmtree(tmpdir, ignore_errors=True)
