"""C08 - metric axioms: finite, symmetric, non-negative, zero self-distance,
triangle.  Explorer E: the pair matrix of every value grid is filled by real
calls, the axioms of the fixed table (mc/oracles/axioms.py) are evaluated on
all ordered pairs / all ordered triples."""
import numpy as np

from mc import grids
from mc.oracles import axioms
from mc.runner import Result

ID = "C08"
TITLE = "metric axioms"
RULE = ("for every identifier and every domain class of its row in the axiom table, the matrix "
        "M[i][j] = d(v_i, v_j) over ALL vectors of length 1..3 (thorough ..4) of the class grid "
        "(identical, parallel, one-dimensional vectors included) is filled by real calls; "
        "finiteness on all ordered pairs (decorated metrics additionally on the zero-containing "
        "grids N and S0), symmetry on all ordered pairs, non-negativity and zero self-distance "
        "for dissimilarity-type metrics, triangle inequality on ALL ordered triples for the 13 "
        "true metrics (array arithmetic on the real-call matrix); finiteness and symmetry additionally on "
        "structured vectors of length 32..1024 at unit and at 0..255-like scale; self-distances also with the "
        "very same object for both parameters; symmetry between an integer and a float array; evaluations = real calls; a "
        "pair is non-trivial when i != j")
ASSUMPTIONS = [
    "the axiom table (which metric claims which axiom on which domain class) is fixed in "
    "/verif/mc/oracles/axioms.py",
    "tolerances: symmetry 1e-9 relative, non-negativity 1e-12 absolute, zero-self 1e-9 absolute "
    "(1e-7 for chord, whose final square root amplifies one ulp of the cosine), triangle 1e-9 relative; "
    "on the tolerance-ladder class T: non-negativity/zero-self 1e-8, triangle 1e-6 relative + 1e-9",
    "value grids only; lengths 1..3 (4 in thorough)",
]


def bounds(tier):
    return {"lengths": [1, 2, 3] + ([4] if tier == "thorough" else []),
            "grid_values_per_class": 6 if tier == "quick" else 8,
            "triangle_metrics": sorted(axioms.TRIANGLE)}


def plan(tier, seed):
    shards = []
    for name in axioms.NAMES:
        r = axioms.row(name)
        for cl in r["classes"]:
            shards.append((name, cl, "axioms", tier))
        if name in axioms.DECORATED:
            shards.append((name, "N", "finite-only", tier))
            shards.append((name, "S0", "finite-only", tier))
        shards.append((name, r["classes"][0], "long", tier))
        if r["symmetric"]:
            shards.append((name, "P", "mixed", tier))
        shards.append((name, "N", "negzero", tier))
    return shards


def warm():
    from mc.warm import warm_metrics, warm_dtypes
    warm_metrics()
    warm_dtypes()


def fill(fn, vs):
    n = len(vs)
    d = len(vs[0])
    M = np.empty((n, n))
    err = None
    # two caller-owned buffers, overwritten in place between calls; every third row uses
    # fresh arrays instead, so both calling styles are exercised
    bx, by = np.zeros(d), np.zeros(d)
    for i in range(n):
        fresh = (i % 3 == 2)
        bx[:] = vs[i]
        for j in range(n):
            try:
                if fresh:
                    M[i, j] = fn(np.array(vs[i], dtype=float), np.array(vs[j], dtype=float))
                elif i == j and i % 3 == 0:
                    M[i, j] = fn(bx, bx)        # the very same object for both parameters
                else:
                    by[:] = vs[j]
                    M[i, j] = fn(bx, by)
            except Exception as ex:
                M[i, j] = np.nan
                err = (i, j, repr(ex))
    return M, err


def judge(name, cl, mode, vs, M, err):
    """Returns a list of (axiom, i, j, k, text)."""
    r = axioms.row(name)
    out = []
    if err:
        i, j, ex = err
        out.append(("finite", i, j, None, "raised %s" % ex))
        return out
    bad = np.argwhere(~np.isfinite(M))
    if len(bad):
        i, j = bad[0]
        out.append(("finite", int(i), int(j), None, "returned %r" % float(M[i, j])))
        return out
    if mode == "finite-only":
        return out
    if mode == "finite-sym":
        if r["symmetric"]:
            scale = np.maximum(1.0, np.abs(M))
            bad = np.argwhere(np.abs(M - M.T) > 1e-9 * scale)
            if len(bad):
                i, j = bad[0]
                out.append(("symmetric", int(i), int(j), None,
                            "d(x,y) = %r but d(y,x) = %r" % (float(M[i, j]), float(M[j, i]))))
        return out
    if r["symmetric"]:
        scale = np.maximum(1.0, np.abs(M))
        bad = np.argwhere(np.abs(M - M.T) > 1e-9 * scale)
        if len(bad):
            i, j = bad[0]
            out.append(("symmetric", int(i), int(j), None,
                        "d(x,y) = %r but d(y,x) = %r" % (float(M[i, j]), float(M[j, i]))))
    if r["dissimilarity"] and cl in r["dissimilarity_classes"]:
        # on the ladder (values up to 1e5) cancellation noise of log-type metrics reaches ~1e-9
        bad = np.argwhere(M < (-1e-12 if cl != "T" else -1e-8))
        if len(bad):
            i, j = bad[0]
            out.append(("non-negative", int(i), int(j), None, "returned %r" % float(M[i, j])))
        tol = 1e-7 if name == "chord" else (1e-9 if cl != "T" else 1e-8)
        dg = np.abs(np.diag(M))
        bad = np.argwhere(dg > tol)
        if len(bad):
            i = int(bad[0][0])
            out.append(("zero-self", i, i, None, "d(x,x) = %r" % float(M[i, i])))
    if r["triangle"]:
        n = len(vs)
        for j in range(n):
            rhs = (M[:, j][:, None] + M[j, :][None, :])
            # ladder distances are ~1e-8 apart from 0: log(1 + d) style formulas carry an
            # absolute rounding error of ~1e5 * eps there, hence the wider slack on class T
            rel, ab = (1e-9, 1e-12) if cl != "T" else (1e-6, 1e-9)
            bad = np.argwhere(M > rhs * (1 + rel) + ab)
            if len(bad):
                i, k = bad[0]
                out.append(("triangle", int(i), int(k), int(j),
                            "d(x,z) = %r > d(x,y) + d(y,z) = %r + %r"
                            % (float(M[i, k]), float(M[i, j]), float(M[j, k]))))
                break
    return out


def make_violation(name, cl, vs, axiom, i, j, k, text):
    prog = {"metric": name, "class": cl, "axiom": axiom, "x": list(vs[i]), "y": list(vs[j])}
    if k is not None:
        prog["via"] = list(vs[k])
    return {"check": axiom, "program": prog, "observed": text,
            "allowed": "axiom '%s' of the table row for %s" % (axiom, name),
            "explanation": "%s on %s (class %s): x=%s y=%s%s: %s" % (
                axiom, name, cl, list(vs[i]), list(vs[j]),
                (" via=%s" % list(vs[k])) if k is not None else "", text),
            "fingerprint": "metric %s: axiom %s" % (name, axiom)}


def long_vectors(cl, seed, tier):
    """a few structured vectors per length 32..1024 at unit scale and at a 0..255-like scale"""
    vals = grids.values(cl if cl not in ("S", "T") else "P", seed, "quick")
    out = {}
    for L in (32, 100, 256, 784, 1024) + ((2048,) if tier == "thorough" else ()):
        for sc in (1.0, 50.0):
            vs = []
            for (a1, b1) in ((3, 1), (5, 2), (7, 0)):
                vs.append(tuple(sc * vals[(t * a1 + b1) % len(vals)] for t in range(L)))
            vs.append(tuple(sc * vals[(t // 7 + 2) % len(vals)] for t in range(L)))
            out[(L, sc)] = vs
    return out


def run(shard, seed):
    import opfython.math.distance as D
    name, cl, mode, tier = shard
    res = Result()
    fn = D.DISTANCES[name]
    if mode == "negzero":
        # -0.0 and +0.0 are the same number: a vector holding a negative zero must get the same
        # (finite) distances as the vector holding a positive zero
        vals = [-0.0, 0.5, 2.0]
        for d in (1, 2):
            import itertools
            vs = list(itertools.product(vals, repeat=d))
            for x in vs:
                for y in vs:
                    a, b = np.array(x, dtype=float), np.array(y, dtype=float)
                    try:
                        got = float(fn(a.copy(), b.copy()))
                        want = float(fn(a + 0.0, b + 0.0))
                    except Exception as ex:
                        got, want = float("nan"), 0.0
                    res.transitions += 2
                    res.nontrivial += 1
                    same = (got == want) or (got != got and want != want) or \
                        abs(got - want) <= 1e-12 * max(1.0, abs(want))
                    if not same:
                        v = make_violation(name, cl, [x, y], "finite", 0, 1, None,
                                           "with a negative zero among the components the value is %r, with a "
                                           "positive zero it is %r" % (got, want))
                        v["program"]["negzero"] = True
                        v["fingerprint"] = "metric %s: negative zero treated differently" % name
                        res.violations.append(v)
                        break
                if res.violations:
                    break
            if res.violations:
                break
        res.outcome((name, "negzero"))
        res.sample({"metric": name, "mode": "negzero", "x": [-0.0, 0.5], "y": [2.0, -0.0]}, 1)
        res.evaluations = res.transitions
        res.states = res.transitions
        res.traces = res.transitions
        return res
    if mode == "mixed":
        # symmetry when one argument is an integer array and the other a float array
        ints = [(3, 1, 7, 2), (1, 5, 2, 2), (2, 2), (9,), (4, 1)]
        flts = [(2.6, 0.9, 6.5, 2.75), (3.5, 1.25, 7.9, 1.1), (2.5, 1.75), (8.4,), (0.3, 1.1)]
        for xi in ints:
            for yf in flts:
                if len(xi) != len(yf):
                    continue
                for dt in (np.int64, np.int32):
                    a = np.array(xi, dtype=dt)
                    b = np.array(yf, dtype=float)
                    try:
                        ab, ba = float(fn(a.copy(), b.copy())), float(fn(b.copy(), a.copy()))
                    except Exception as ex:
                        ab, ba = float("nan"), float("nan")
                    res.transitions += 2
                    res.nontrivial += 1
                    if not (abs(ab - ba) <= 1e-9 * max(1.0, abs(ab))) and not (ab != ab and ba != ba):
                        v = make_violation(name, cl, [xi, yf], "symmetric", 0, 1, None,
                                           "d(int array, float array) = %r but d(float array, int array) = %r" % (ab, ba))
                        v["program"]["mixed"] = str(np.dtype(dt))
                        res.violations.append(v)
                        break
                if res.violations:
                    break
            if res.violations:
                break
        # integer-typed vectors (count data) holding exact zeros: the same numbers must give the same value
        # as their float64 copies - in particular a finite one
        if not res.violations:
            zs = [(0, 3, 7, 0, 5), (2, 0, 7, 1, 5), (0, 0), (0, 4), (0,), (3,)]
            for xi in zs:
                for yi in zs:
                    if len(xi) != len(yi):
                        continue
                    for dt in (np.int64, np.int32):
                        v = int_vs_float(fn, name, cl, xi, yi, str(np.dtype(dt)))
                        res.transitions += 2
                        res.nontrivial += 1
                        if v:
                            res.violations.append(v)
                            break
                    if res.violations:
                        break
                if res.violations:
                    break
        # the documented parameters passed by keyword (f(x=a, y=b), f(a, y=b), f(y=b, x=a)) on vectors of
        # the domain, zero-containing ones included: the same, finite, value as the positional call
        if not res.violations:
            kws = [(0.5, 0.5, 0.0, 0.0), (0.25, 0.0, 0.75, 0.0), (0.1, 0.2, 0.3, 0.4), (1.0, 0.0, 0.0, 0.0)]
            for xi in kws:
                for yi in kws:
                    v = kw_call(fn, name, cl, xi, yi)
                    res.transitions += 4
                    res.nontrivial += 1
                    if v:
                        res.violations.append(v)
                        break
                if res.violations:
                    break
        res.outcome((name, "mixed"))
        res.sample({"metric": name, "mode": "mixed", "x_int": list(ints[0]), "y_float": list(flts[0])}, 1)
        res.evaluations = res.transitions
        res.states = res.transitions
        res.traces = res.transitions
        return res
    if mode == "long":
        # finiteness and symmetry must not depend on the vector length or the feature scale
        for (L, sc), vs in long_vectors(cl, seed, tier).items():
            M, err = fill(fn, vs)
            n = len(vs)
            res.transitions += n * n
            res.nontrivial += n * n - n
            for (axiom, i, j, k, text) in judge(name, cl, "finite-sym", vs, M, err):
                v = make_violation(name, cl, vs, axiom, i, j, k, "(length %d, scale %g) %s" % (L, sc, text))
                v["program"]["x"] = {"pattern": "long", "L": L, "scale": sc, "i": i}
                v["program"]["y"] = {"pattern": "long", "L": L, "scale": sc, "i": j}
                v["program"]["seed"] = seed
                res.violations.append(v)
            res.outcome((name, "long", L, sc))
            if res.full:
                break
        res.sample({"metric": name, "mode": "long", "lengths": [32, 100, 256, 784, 1024], "scales": [1, 50]}, 1)
        res.evaluations = res.transitions
        res.states = res.transitions
        res.traces = res.transitions
        return res
    V = grids.vectors(cl, seed, tier)
    for d, vs in V.items():
        M, err = fill(fn, vs)
        n = len(vs)
        res.transitions += n * n
        res.nontrivial += n * n - n
        if axioms.row(name)["triangle"] and mode == "axioms":
            res.count("triples_checked", n * n * n)
        for (axiom, i, j, k, text) in judge(name, cl, mode, vs, M, err):
            res.violations.append(make_violation(name, cl, vs, axiom, i, j, k, text))
        res.outcome((name, cl, d, mode))
        if res.full:
            break
    vs = V[max(V)]
    res.sample({"metric": name, "class": cl, "mode": mode, "x": list(vs[1]), "y": list(vs[-2])}, 1)
    res.evaluations = res.transitions
    res.states = res.transitions
    res.traces = res.transitions
    return res


def kw_call(fn, name, cl, xi, yi):
    a, b = np.array(xi, dtype=float), np.array(yi, dtype=float)
    out = []
    for call in (lambda: fn(a.copy(), b.copy()), lambda: fn(x=a.copy(), y=b.copy()),
                 lambda: fn(a.copy(), y=b.copy()), lambda: fn(y=b.copy(), x=a.copy())):
        try:
            out.append(repr(float(call())))
        except Exception as ex:
            out.append("raised %s" % type(ex).__name__)
    if len(set(out)) == 1:
        return None
    v = make_violation(name, cl, [list(xi), list(yi)], "finite", 0, 1, None,
                       "f(x, y), f(x=x, y=y), f(x, y=y), f(y=y, x=x) give %s" % out)
    v["program"]["kwcall"] = True
    v["fingerprint"] = "metric %s: keyword call differs from positional call" % name
    return v


def int_vs_float(fn, name, cl, xi, yi, dt):
    a, b = np.array(xi, dtype=np.dtype(dt)), np.array(yi, dtype=np.dtype(dt))
    try:
        gi = float(fn(a.copy(), b.copy()))
    except Exception:
        gi = float("nan")
    try:
        gf = float(fn(a.astype(float), b.astype(float)))
    except Exception:
        gf = float("inf")
    same = (gi == gf) or (gi != gi and gf != gf) or abs(gi - gf) <= 1e-9 * max(1.0, abs(gf))
    if same:
        return None
    v = make_violation(name, cl, [list(xi), list(yi)], "finite", 0, 1, None,
                       "on %s arrays the value is %r, on float64 arrays holding the same numbers it is %r"
                       % (dt, gi, gf))
    v["program"]["int_vs_float"] = dt
    v["fingerprint"] = "metric %s: integer-typed vectors treated differently" % name
    return v


def replay(case):
    import opfython.math.distance as D
    p = case["program"]
    name, cl, axiom = p["metric"], p["class"], p["axiom"]
    if p.get("kwcall"):
        return kw_call(D.DISTANCES[name], name, cl, p["x"], p["y"])
    if p.get("int_vs_float"):
        return int_vs_float(D.DISTANCES[name], name, cl, p["x"], p["y"], p["int_vs_float"])
    if p.get("negzero"):
        a, b = np.array(p["x"], dtype=float), np.array(p["y"], dtype=float)
        try:
            got, want = float(D.DISTANCES[name](a.copy(), b.copy())), float(D.DISTANCES[name](a + 0.0, b + 0.0))
        except Exception:
            got, want = float("nan"), 0.0
        if not ((got == want) or (got != got and want != want) or abs(got - want) <= 1e-12 * max(1.0, abs(want))):
            v = make_violation(name, cl, [p["x"], p["y"]], "finite", 0, 1, None,
                               "with a negative zero among the components the value is %r, with a positive "
                               "zero it is %r" % (got, want))
            v["program"]["negzero"] = True
            v["fingerprint"] = "metric %s: negative zero treated differently" % name
            return v
        return None
    if p.get("mixed"):
        a = np.array(p["x"], dtype=np.dtype(p["mixed"]))
        b = np.array(p["y"], dtype=float)
        ab, ba = float(D.DISTANCES[name](a.copy(), b.copy())), float(D.DISTANCES[name](b.copy(), a.copy()))
        if not (abs(ab - ba) <= 1e-9 * max(1.0, abs(ab))):
            return make_violation(name, cl, [p["x"], p["y"]], "symmetric", 0, 1, None,
                                  "d(int array, float array) = %r but d(float array, int array) = %r" % (ab, ba))
        return None
    if isinstance(p["x"], dict):
        lv = long_vectors(cl, p.get("seed", 0), "thorough")[(p["x"]["L"], p["x"]["scale"])]
        vs = [lv[p["x"]["i"]], lv[p["y"]["i"]]]
        M, err = fill(D.DISTANCES[name], vs)
        for (ax, i, j, k, text) in judge(name, cl, "finite-sym", vs, M, err):
            if ax == axiom:
                return make_violation(name, cl, [p["x"], p["y"]], ax, i, j, k, text) \
                    if False else {"check": ax, "program": p, "observed": text,
                                   "allowed": "axiom '%s'" % ax, "explanation": text,
                                   "fingerprint": "metric %s: axiom %s" % (name, ax)}
        return None
    vs = [tuple(p["x"]), tuple(p["y"])] + ([tuple(p["via"])] if "via" in p else [])
    M, err = fill(D.DISTANCES[name], vs)
    mode = "finite-only" if cl in ("N", "S0") and name in axioms.DECORATED and axiom == "finite" else "axioms"
    for (ax, i, j, k, text) in judge(name, cl, mode, vs, M, err):
        if ax == axiom:
            return make_violation(name, cl, vs, ax, i, j, k, text)
    return None
