"""C17 - learning conserves samples and keeps the best model; pruning only
discards.  Explorer D over every random swap choice of SupervisedOPF.learn
(prefix replay through the intercepted RNG); explorer E over (forest, batch)
for the relevance marking of predict and over prune runs."""
import collections
import itertools

import numpy as np

from mc import enum as E
from mc import seams
from mc import sup
from mc.explore import explore
from mc.oracles import forest as F
from mc.props import c01, c03
from mc.runner import Result, horizon, Horizon

ID = "C17"
TITLE = "learn conserves samples and keeps the best model; prune only discards"
RULE = ("learn: every training arrangement of 3 of 4 (thorough also 4 of 5) distinct 1-D points x "
        "3 labelings x 3 validation sets x n_iterations 1..3, plus configurations in which the "
        "validation accuracy itself is a scripted environment answer (every sequence over {0, 0.5, 1} "
        "for 1..4 iterations, so non-monotone accuracy histories occur); EVERY sequence of answers of the "
        "intercepted uniform draw (numpy.random.uniform/randint/random/choice are all owned by the "
        "chooser) is explored by prefix replay; per execution: no exception, multiset of (features, "
        "label) over both sets and both sizes unchanged, final model = training set of a recorded "
        "iteration with maximal recorded accuracy and identical to a fresh fit on it. predict "
        "marking: every forest of WO(4) (3+1), G(5,2) (4+1) and lattice sets x batches; flagged set "
        "must equal the union of conqueror + ancestors for SOME choice of exhaustive minimisers "
        "(unique on tie-free data). prune: lattice sets x validation sets x n_iterations 0..2; each "
        "re-fit receives exactly the rows flagged after the previous pass, final nodes are a "
        "sub-multiset of the original with labels intact (also 2-D lattice arrangements and twelve-sample "
        "sets with few relevant rows). Non-trivial = the execution has >= 1 "
        "swap / the batch flags a proper subset / pruning discards >= 1 row")
ASSUMPTIONS = [
    "feature values are unique tags (rows identifiable); n_train <= 3 (4), n_val <= 3, iterations <= 3",
    "prune runs in which some re-fit would receive a single class are outside fit's domain and skipped",
    "thorough learn configurations with 4 training rows are explored under an execution cap "
    "(reported when hit); quick configurations are explored completely",
]
VALSETS = [((0.5, 4.5), (0, 1)), ((2.0, 3.0), (1, 0)), ((0.2, 0.4, 4.7), (1, 1, 0))]
LABS3 = [[0, 0, 1], [0, 1, 1], [0, 1, 0]]
LABS4 = [[0, 0, 1, 1], [0, 1, 0, 1], [0, 1, 1, 0]]


def bounds(tier):
    return {"learn": "24 arrangements x 3 labelings x 3 validation sets x iterations 1..3 (648 configs), "
            "all answer sequences; scripted accuracy: %d arrangements x 3 labelings x %d accuracy "
            "sequences x all RNG answers" % ((6, 39) if tier == "quick" else (24, 120)) + ("; + 120 x 3 x 3 x {1,2} configs with 4 training rows (cap 3000 "
                                      "executions each)" if tier == "thorough" else ""),
            "marking": ["WO(4): 3+1 x L(3)", "G(5,2): 4+1 x L(4)", "G(4,3,zero): 3+1", "G(5,2,zero): 4+1",
                        "P(3,{0,1,2}^2) x 26-query batch"],
            "prune": "P(4,{0..3} distinct arrangements) x validation pairs x n_iterations 0..2; all 3024 "
            "arrangements of 4 distinct points of {0,1,2}^2 x 7 labelings x 6 validation sets x n_iterations %s"
            % ("1" if tier == "quick" else "1..2")}


def plan(tier, seed):
    shards = []
    perms = list(itertools.permutations(range(4), 3))
    for pi in range(len(perms)):
        shards.append(("learn", 3, pi))
    for pi in (range(0, 24, 4) if tier == "quick" else range(24)):
        for li in range(3):
            shards.append(("learn", "scripted", pi, li, 3 if tier == "quick" else 4))
    # accuracies that differ by less than the stopping tolerance (1e-4) are still different accuracies
    for pi in (0, 8, 16):
        shards.append(("learn", "scripted", pi, 0, 3, "near"))
    if tier == "thorough":
        for pi in range(120):
            shards.append(("learn", 4, pi))
    else:
        # four training rows (two non-prototypes can be drawn in one iteration), one iteration
        for pi in range(0, 120, 5):
            shards.append(("learn", 4, pi, 1))
    for a, b in E.chunks(4683, 300):
        shards.append(("mark", "wo", 4, a, b))
    for a, b in E.chunks(1024, 64):
        shards.append(("mark", "g", 5, 2, False, a, b))
    # zero weights: non-prototype samples can then have cost 0 and still be conquerors
    for a, b in E.chunks(729, 100):
        shards.append(("mark", "g", 4, 3, True, a, b))
    for a, b in E.chunks(1024, 64):
        shards.append(("mark", "g", 5, 2, True, a, b))
    for a, b in E.chunks(729, 81):
        shards.append(("mark", "feat", "2d", 3, "euclidean", a, b))
    # deep forests: a tie-free chain of 5..40 samples hanging off one prototype; queries near its far end
    shards.append(("mark", "chain", 5, 23))
    shards.append(("mark", "chain", 23, 41))
    for pi in range(24):
        shards.append(("prune", pi))
    for a, b in E.chunks(3024, 126):
        shards.append(("prune2d", a, b, (1,) if tier == "quick" else (1, 2)))
    for b in range(1, 12):
        shards.append(("prune12", b))
    shards.sort(key=lambda sh: 0 if sh[1] == "scripted" else 1)
    return shards


warm = c01.warm


# --------------------------------------------------------------------------
# learn
# --------------------------------------------------------------------------
def own_rng(ch):
    """Context: every legacy numpy.random entry point is served by the chooser."""
    import contextlib

    def uniform(low=0.0, high=1.0, size=None):
        lo, hi = int(np.floor(low)), int(np.ceil(high))
        a = lo + ch.choose(max(1, hi - lo))
        val = min(a + 0.5, high - 1e-9) if high - low >= 1 else (low + high) / 2.0
        if size is None:
            return float(val)
        return np.full(size, val, dtype=float)

    def randint(low, high=None, size=None, dtype=int):
        if high is None:
            low, high = 0, low
        a = int(low) + ch.choose(max(1, int(high) - int(low)))
        if size is None:
            return int(a)
        return np.full(size, a, dtype=int)

    def random(size=None):
        raise seams.ScriptExhausted("numpy.random.random drawn: range unknown to the chooser")

    def choice(a, size=None, replace=True, p=None):
        seq = list(range(a)) if isinstance(a, (int, np.integer)) else list(a)
        v = seq[ch.choose(len(seq))]
        if size is None:
            return v
        return np.full(size, v)

    st = contextlib.ExitStack()
    st.enter_context(seams.patched(np.random, "uniform", uniform))
    st.enter_context(seams.patched(np.random, "randint", randint))
    st.enter_context(seams.patched(np.random, "random", random))
    st.enter_context(seams.patched(np.random, "random_sample", random))
    st.enter_context(seams.patched(np.random, "rand", lambda *a: random(a)))
    st.enter_context(seams.patched(np.random, "choice", choice))
    return st


def rows(X, Y):
    return [(tuple(float(v) for v in x), int(y)) for x, y in zip(np.asarray(X).tolist(), np.asarray(Y).tolist())]


def learn_once(cfg, ch):
    """One complete execution of the real learn() under chooser ch.  Returns
    (problem, symptom) or None."""
    import opfython.math.general as g
    from opfython.models import SupervisedOPF
    Xt = np.array(cfg["Xt"], dtype=float).reshape(-1, 1)
    Yt = np.array(cfg["Yt"], dtype=int)
    Xv = np.array(cfg["Xv"], dtype=float).reshape(-1, 1)
    Yv = np.array(cfg["Yv"], dtype=int)
    before = collections.Counter(rows(Xt, Yt) + rows(Xv, Yv))
    sizes = (Xt.shape, Yt.shape, Xv.shape, Yv.shape)
    rec = []
    orig_fit = SupervisedOPF.fit
    orig_acc = g.opf_accuracy

    def fit(self, *a, **kw):
        # (positional or keyword use of fit(X_train, Y_train, I_train) by the training loop)
        X = a[0] if len(a) > 0 else kw["X_train"]
        Y = a[1] if len(a) > 1 else kw["Y_train"]
        rec.append({"rows": rows(X, Y), "acc": None})
        return orig_fit(self, *a, **kw)

    script = cfg.get("acc_script")
    n_acc = [0]

    def acc(labels, preds, *more, **kw):
        a = orig_acc(labels, preds, *more, **kw)
        if script is not None:
            # the validation accuracy is an environment answer served from the script
            a = float(script[n_acc[0]]) if n_acc[0] < len(script) else float(script[-1])
            n_acc[0] += 1
        if rec:
            rec[-1]["acc"] = float(a)
        return a

    o = SupervisedOPF("euclidean")
    err = None
    orig_predict = SupervisedOPF.predict

    def predict(self, *a, **kw):
        # the accuracy of an iteration is also measured here, independently of whether (and how) the
        # training loop evaluates it: the predictions it asked for against the current validation labels
        out = orig_predict(self, *a, **kw)
        try:
            if rec and len(out) == len(Yv):
                rec[-1]["acc_indep"] = float(orig_acc(Yv.copy(), [int(v) for v in out]))
        except Exception:
            pass
        return out

    with own_rng(ch), seams.patched(SupervisedOPF, "fit", fit), seams.patched(g, "opf_accuracy", acc), \
            seams.patched(SupervisedOPF, "predict", predict):
        try:
            o.learn(Xt, Yt, Xv, Yv, n_iterations=cfg["iters"])
        except Horizon:
            raise
        except seams.ScriptExhausted:
            raise
        except Exception as ex:
            err = ex
    info = {"iterations": len(rec), "swaps": 0}
    if err is not None:
        import traceback
        tb = traceback.extract_tb(err.__traceback__)
        where = "?"
        for fr in tb:
            if "opfython" in fr.filename:
                where = "%s:%s" % (fr.filename.split("opfython/")[-1], fr.name)
        return ("learn raised %r (in %s) after %d iteration(s)" % (err, where, len(rec)),
                "learn raised %s in %s" % (type(err).__name__, where)), info
    after = collections.Counter(rows(Xt, Yt) + rows(Xv, Yv))
    if (Xt.shape, Yt.shape, Xv.shape, Yv.shape) != sizes:
        return ("set sizes changed", "sizes changed"), info
    info["swaps"] = sum(1 for a, b in zip(rows(np.array(cfg["Xt"]).reshape(-1, 1), cfg["Yt"]), rows(Xt, Yt)) if a != b)
    if after != before:
        lost = before - after
        dup = after - before
        return ("the multiset of (features, label) pairs over training+validation changed: lost %s, "
                "gained %s" % (dict(lost), dict(dup)), "samples not conserved"), info
    accs = [r["acc"] for r in rec]
    if any(a is None for a in accs):
        # the loop did not go through the intercepted accuracy routine: judge it on the accuracies
        # measured independently from its predictions
        accs = [r.get("acc_indep") for r in rec]
    if not rec or any(a is None for a in accs):
        return ("an iteration ran without any prediction of the validation set", "no accuracy"), info
    mx = max(accs)
    if o.subgraph is None:
        return ("no model left in the object", "no model"), info
    got = [(tuple(float(v) for v in nd.features), int(nd.label)) for nd in o.subgraph.nodes]
    best_sets = [r["rows"] for r, a in zip(rec, accs) if a == mx]
    if got not in best_sets:
        which = [i for i, r in enumerate(rec) if r["rows"] == got]
        return ("recorded validation accuracies %s; the object keeps the training set of iteration(s) "
                "%s, not of an iteration with the highest accuracy %r" % (accs, which or "none", mx),
                "final model is not a best iteration"), info
    # identical to a fresh fit on that set
    f = SupervisedOPF("euclidean")
    orig_fit(f, np.array([r[0] for r in got], dtype=float), np.array([r[1] for r in got], dtype=int))
    a, b = sup.observe(o), sup.observe(f)
    if a != b:
        return ("the model left in the object differs from a fresh fit on its own training set",
                "final model differs from fresh fit"), info
    return None, info


def learn_configs(n_train, pi, seed):
    sc = [1.0, 2.0, 0.5, 3.0][seed % 4] if seed else 1.0
    if n_train == 3:
        pts = [0.0, 1.0, 4.0, 5.0]
        perm = list(itertools.permutations(range(4), 3))[pi]
        labs = LABS3
        iters_l = (1, 2, 3)
    else:
        pts = [0.0, 1.0, 4.0, 5.0, 8.0]
        perm = list(itertools.permutations(range(5), 4))[pi]
        labs = LABS4
        iters_l = (1, 2)
    for lab in labs:
        for xv, yv in VALSETS:
            for iters in iters_l:
                yield {"Xt": [pts[i] * sc for i in perm], "Yt": list(lab),
                       "Xv": [v * sc for v in xv], "Yv": list(yv), "iters": iters}


def scripted_configs(pi, seed, li=None, max_iters=4, alphabet=(0.0, 0.5, 1.0)):
    """every accuracy sequence over {0, 0.5, 1} of length n_iterations (1..4) on configurations
    whose validation samples are misclassified (so that swaps really change the training set)"""
    base = [c for c in learn_configs(3, pi, seed) if c["iters"] == 1 and c["Yv"] == [1, 0]]
    if li is not None:
        base = base[li:li + 1]
    for cfg in base:
        for iters in range(1, max_iters + 1):
            for script in itertools.product(list(alphabet), repeat=iters):
                c2 = dict(cfg)
                c2["iters"] = iters
                c2["acc_script"] = list(script)
                yield c2


def shard_learn(shard, seed, res):
    _, n_train, pi = shard[:3]
    near = len(shard) > 5 and shard[5] == "near"
    cfgs = scripted_configs(pi, seed, shard[3], shard[4],
                            (0.5, 0.5 + 4e-6, 0.5 + 5e-5, 0.7) if near else (0.0, 0.5, 1.0)) if n_train == "scripted" \
        else learn_configs(n_train, pi, seed)
    if n_train == 4 and len(shard) > 3:
        cfgs = [c for c in cfgs if c["iters"] == shard[3]]
    for cfg in cfgs:
        found = []

        def execute(ch):
            with horizon(20.0):
                r, info = learn_once(cfg, ch)
            res.transitions += info["iterations"]
            if info["swaps"]:
                res.nontrivial += 1
            res.outcome((info["iterations"], tuple(c for _, c in ch.points)[:6]))
            return r

        try:
            out = explore(execute, max_exec=None if n_train in (3, "scripted") else 3000)
        except Horizon as hz:
            out = {"executions": 1, "choice_points": 0, "violations": [([], (str(hz), "no termination"))],
                   "complete": False, "max_depth": 0, "pruned_by_deviation_bound": 0}
        res.evaluations += out["executions"]
        res.traces += out["executions"]
        res.states += 1
        res.count("rng_choice_points", out["choice_points"])
        if not out["complete"] and not out["violations"]:
            res.capped = "learn config %r: execution cap hit after %d executions" % (cfg, out["executions"])
        for script, (prob, sym) in out["violations"][:1]:
            prog = {"part": "learn", "cfg": cfg, "script": script}
            res.violations.append(viol(prog, prob + " [RNG answers %s]" % script, "SupervisedOPF.learn: " + sym))
        if res.full:
            return
    res.sample({"part": "learn", "cfg": cfg, "script": "all answer sequences"}, 1)


# --------------------------------------------------------------------------
# predict marking
# --------------------------------------------------------------------------
def mark_programs(shard, seed):
    fam = shard[1]
    if fam == "chain":
        sc = [1.0, 0.5, 2.0, 3.0][seed % 4] if seed else 1.0
        for n in range(shard[2], shard[3]):
            xs = [sc * i * (1.0 + i * 1e-3) for i in range(n)]
            for head, labs in ((1, (0, 1)), (2, (1, 0)), (2, (5, 2))):
                lab = [labs[0] if i < head else labs[1] for i in range(n)]
                qs = [[xs[-1] + 0.25 * sc], [xs[n // 2] + 0.1 * sc], [xs[0] - 0.3 * sc], [xs[-1]]]
                yield {"model": "SupervisedOPF", "mode": "features", "X": [[x] for x in xs], "metric": "euclidean",
                       "labels": lab, "n_unlabeled": 0, "batches": [qs]}
        return
    if fam in ("wo", "g"):
        for p in c03.programs(shard[1:], seed):
            yield p
    else:
        for p in c03.programs(shard[1:], seed):
            if p["model"] == "SupervisedOPF":
                q = dict(p)
                # sub-batches: each single query, and the whole batch
                yield q


def closure(nodes, t):
    out = {t}
    while nodes[t]["pred"] != -1:
        t = nodes[t]["pred"]
        out.add(t)
    return out


def mark_case(prog, res=None):
    try:
        m, Wd = sup.fit_program(prog, fresh=True)
    except Horizon:
        raise
    except Exception as ex:
        return viol(prog, "fit raised %r" % (ex,), "SupervisedOPF.fit raised")
    obs = sup.observe(m)
    nodes = obs["nodes"]
    n = len(nodes)
    costs = [nd["cost"] for nd in nodes]
    plab = [nd["plabel"] for nd in nodes]
    pre = prog["mode"] == "pre"
    if any(int(nd.relevant) != 0 for nd in m.subgraph.nodes):
        return viol(prog, "samples are flagged relevant before any prediction", "SupervisedOPF.fit: relevant flags not reset")
    batches = prog["batches"]
    if prog.get("passes"):
        batches = []
    elif not pre:
        qs = batches[0]
        far = [1e200] + [0.0] * (len(qs[0]) - 1)      # every distance to it overflows to +inf
        batches = [[q] for q in qs[:6]] + [qs[:2], qs, [far], [qs[0], far]]
    for batch in batches:
        # fresh flags for every batch: re-fit
        m, _ = sup.fit_program(prog, fresh=True)
        try:
            if pre:
                W = np.array(prog["W"], dtype=float)
                tidx = [int(i) for i in prog["I_train"]]
                m.predict(np.zeros((len(batch), 1)), I_val=np.array(batch, dtype=int))
                dists = [[float(W[t][q]) for t in tidx] for q in batch]
            else:
                m.predict(np.array(batch, dtype=float))
                dists = [[float(m.distance_fn(nd.features.copy(), np.array(q, dtype=float)))
                          for nd in m.subgraph.nodes] for q in batch]
        except Horizon:
            raise
        except Exception as ex:
            return viol(prog, "predict raised %r" % (ex,), "SupervisedOPF.predict raised")
        flagged = frozenset(i for i, nd in enumerate(m.subgraph.nodes) if int(nd.relevant) == 1)
        args = [F.acceptable_labels(costs, plab, d)[2] for d in dists]
        ok = False
        nchoices = 1
        for a in args:
            nchoices *= len(a)
        if nchoices <= 4096:
            for choice in itertools.product(*args):
                want = set()
                for t in choice:
                    want |= closure(nodes, t)
                if frozenset(want) == flagged:
                    ok = True
                    break
        else:
            ok = True
            if res is not None:
                res.skip("too many tie choices to enumerate")
        if res is not None:
            res.transitions += 1
            res.evaluations += 1
            if 0 < len(flagged) < n:
                res.nontrivial += 1
            res.outcome((n, len(flagged), nchoices > 1))
        if not ok:
            exp = set()
            for a in args:
                exp |= closure(nodes, a[0])
            first_in_order = obs["idx_nodes"][0]
            sym = "relevant flags differ from conquerors+ancestors"
            if any(first_in_order in a and len(a) == 1 for a in args) and first_in_order not in flagged:
                sym = "conqueror first in cost order is not flagged"
            p = dict(prog)
            p["batches"] = [batch]
            return viol(p, "after predicting %s the flagged samples are %s; the conquerors (exhaustive "
                        "minimisers %s) and their ancestors are e.g. %s" % (batch, sorted(flagged), args,
                                                                             sorted(exp)),
                        "SupervisedOPF.predict: " + sym)
    # two prediction passes on ONE fitted object: the second pass must flag its conquerors with all
    # their ancestors in the forest recorded after fit (flags of the first pass may stay or be cleared)
    if prog.get("passes"):
        pairs = [tuple(prog["batches"])]
    elif pre:
        pairs = [(batches[0], batches[-1])]
    else:
        qs = prog["batches"][0]
        pairs = [([qs[0]], [qs[-2]]), (qs[:2], qs[2:4]), ([qs[-2]], qs[:3])]
    for b1, b2 in pairs:
        m, _ = sup.fit_program(prog, fresh=True)
        try:
            ds = []
            for batch in (b1, b2):
                if pre:
                    W = np.array(prog["W"], dtype=float)
                    tidx = [int(i) for i in prog["I_train"]]
                    m.predict(np.zeros((len(batch), 1)), I_val=np.array(batch, dtype=int))
                    ds.append([[float(W[t][q]) for t in tidx] for q in batch])
                else:
                    m.predict(np.array(batch, dtype=float))
                    ds.append([[float(m.distance_fn(nd.features.copy(), np.array(q, dtype=float)))
                                for nd in m.subgraph.nodes] for q in batch])
        except Horizon:
            raise
        except Exception as ex:
            return viol(dict(prog, batches=[b1, b2], passes=True), "second predict raised %r" % (ex,),
                        "SupervisedOPF.predict raised")
        flagged = frozenset(i for i, nd in enumerate(m.subgraph.nodes) if int(nd.relevant) == 1)
        a1 = [F.acceptable_labels(costs, plab, d)[2] for d in ds[0]]
        a2 = [F.acceptable_labels(costs, plab, d)[2] for d in ds[1]]
        nchoices = 1
        for a in a1 + a2:
            nchoices *= len(a)
        ok = nchoices > 4096
        if not ok:
            for c2 in itertools.product(*a2):
                need = set()
                for t in c2:
                    need |= closure(nodes, t)
                if not need <= flagged:
                    continue
                for c1 in itertools.product(*a1):
                    may = set(need)
                    for t in c1:
                        may |= closure(nodes, t)
                    if flagged <= may:
                        ok = True
                        break
                if ok:
                    break
        if res is not None:
            res.transitions += 2
            res.evaluations += 1
            res.nontrivial += 1
        if not ok:
            exp = set()
            for a in a2:
                exp |= closure(nodes, a[0])
            return viol(dict(prog, batches=[b1, b2], passes=True),
                        "after predicting %s and then %s on one object the flagged samples are %s; the conquerors "
                        "of the second pass (exhaustive minimisers %s) and their ancestors are e.g. %s"
                        % (b1, b2, sorted(flagged), a2, sorted(exp)),
                        "SupervisedOPF.predict: second pass does not flag conquerors+ancestors")
    return None


# --------------------------------------------------------------------------
# prune
# --------------------------------------------------------------------------
PRUNE_VALS_2D = [((3.0, 1.0), (0.0, 1.0)), ((1.0, 3.0), (1.0, 0.0)), ((2.5, 2.5), (0.5, 0.5))]


def prune_programs_2d(a, b, seed, iters_list):
    """every arrangement of 4 distinct points of {0,1,2}^2 (heavy distance ties: samples get
    relabelled by an equal-cost prototype of the other class) x two-class labelings x validation sets"""
    sc = [1.0, 2.0, 0.5, 3.0][seed % 4] if seed else 1.0
    pts = [(float(x), float(y)) for x in range(3) for y in range(3)]
    arrs = list(itertools.permutations(range(9), 4))[a:b]
    for arr in arrs:
        X = [[pts[i][0] * sc, pts[i][1] * sc] for i in arr]
        for lab in E.labelings(4, max_classes=2):
            for xv in PRUNE_VALS_2D:
                for yv in ([0, 1], [1, 0]):
                    for iters in iters_list:
                        yield {"part": "prune", "Xt": X, "Yt": list(lab), "dim": 2,
                               "Xv": [[v[0] * sc, v[1] * sc] for v in xv], "Yv": yv, "iters": iters}


def prune_programs_12(b, seed):
    """twelve training samples on a line (more than a small hash table holds), class boundary at b,
    every rotation of the sample order, every pair of validation points: few samples stay relevant"""
    sc = [1.0, 2.0, 0.5, 3.0][seed % 4] if seed else 1.0
    base = [float(i) * 1.5 + (i % 3) * 0.1 for i in range(12)]
    lab = [0 if i < b else 1 for i in range(12)]
    mids = [base[i] + 0.6 for i in range(0, 12, 2)]
    for rot in range(12):
        order = list(range(rot, 12)) + list(range(rot))
        X = [base[i] * sc for i in order]
        Y = [lab[i] for i in order]
        for xv in itertools.combinations(mids, 2):
            yv = [0 if v < base[b] else 1 for v in xv]
            if len(set(yv)) < 2:
                yv = [0, 1]
            for iters in (1, 2):
                yield {"part": "prune", "Xt": X, "Yt": Y, "Xv": [v * sc for v in xv], "Yv": yv, "iters": iters}


def prune_programs(pi, seed):
    sc = [1.0, 2.0, 0.5, 3.0][seed % 4] if seed else 1.0
    pts = [0.0, 1.0, 2.0, 3.0, 6.0, 7.0]
    perm = list(itertools.permutations(range(4)))[pi]
    base = [pts[i] for i in perm] + [6.0, 7.0]
    for lab in ([0, 0, 1, 1, 1, 0], [0, 1, 0, 1, 0, 1], [0, 0, 0, 1, 1, 1]):
        for xv in itertools.combinations([0.4, 1.5, 2.6, 5.0, 6.4, 9.0], 2):
            for iters in (0, 1, 2):
                yield {"part": "prune", "Xt": [v * sc for v in base], "Yt": lab,
                       "Xv": [v * sc for v in xv], "Yv": [0, 1], "iters": iters}


def prune_case(prog, res=None):
    from opfython.models import SupervisedOPF
    dim = int(prog.get("dim", 1))
    Xt = np.array(prog["Xt"], dtype=float).reshape(-1, dim)
    Yt = np.array(prog["Yt"], dtype=int)
    Xv = np.array(prog["Xv"], dtype=float).reshape(-1, dim)
    Yv = np.array(prog["Yv"], dtype=int)
    orig_rows = rows(Xt, Yt)
    rec = []
    orig_fit = SupervisedOPF.fit

    def fit(self, *a, **kw):
        X = a[0] if len(a) > 0 else kw["X_train"]
        Y = a[1] if len(a) > 1 else kw["Y_train"]
        prev = None
        if self.subgraph is not None and rec:
            prev = [int(nd.relevant) for nd in self.subgraph.nodes]
        rec.append({"rows": rows(X, Y), "prev_flags": prev})
        return orig_fit(self, *a, **kw)

    o = SupervisedOPF("euclidean")
    err = None
    with seams.patched(SupervisedOPF, "fit", fit):
        try:
            o.prune(Xt.copy(), Yt.copy(), Xv.copy(), Yv.copy(), n_iterations=prog["iters"])
        except Horizon:
            raise
        except Exception as ex:
            err = ex
    single = any(len({y for _, y in r["rows"]}) < 2 for r in rec)
    if single:
        if res is not None:
            res.skip("a pruning pass left a single class (outside fit's domain)")
        return None
    if err is not None:
        return viol(prog, "prune raised %r" % (err,), "SupervisedOPF.prune raised %s" % type(err).__name__)
    if res is not None:
        res.transitions += len(rec)
    for t in range(1, len(rec)):
        flags = rec[t]["prev_flags"]
        want = [r for r, f in zip(rec[t - 1]["rows"], flags) if f == 1]
        if rec[t]["rows"] != want:
            return viol(prog, "pruning pass %d re-fitted on %s; the rows flagged relevant after the "
                        "previous prediction pass are %s" % (t, rec[t]["rows"], want),
                        "SupervisedOPF.prune: re-fit set is not the flagged rows")
    final = [(tuple(float(v) for v in nd.features), int(nd.label)) for nd in o.subgraph.nodes]
    c_final, c_orig = collections.Counter(final), collections.Counter(orig_rows)
    if c_final - c_orig:
        return viol(prog, "the pruned training set %s is not a sub-multiset of the original %s"
                    % (final, orig_rows), "SupervisedOPF.prune: not a sub-multiset")
    if len(rec) != prog["iters"] + 1:
        return viol(prog, "prune fitted %d times for n_iterations=%d" % (len(rec), prog["iters"]),
                    "SupervisedOPF.prune: iteration count")
    if res is not None:
        if len(final) < len(orig_rows):
            res.nontrivial += 1
        res.outcome(("prune", len(final)))
    return None


def viol(prog, prob, sym):
    return {"check": prog.get("part", "marking"), "program": prog, "observed": prob,
            "allowed": "samples conserved / best model kept / only conquerors and ancestors flagged",
            "explanation": prob, "fingerprint": sym}


def run(shard, seed):
    res = Result()
    if shard[0] == "learn":
        shard_learn(shard, seed, res)
        return res
    if shard[0] == "mark":
        first = True
        for prog in mark_programs(shard, seed):
            if prog["model"] != "SupervisedOPF":
                continue
            try:
                with horizon(30.0):
                    v = mark_case(prog, res)
            except Horizon as hz:
                v = viol(prog, str(hz), "no termination")
            res.states += 1
            res.traces += 1
            if first:
                s = dict(prog)
                s["batches"] = [b[:3] for b in s["batches"]]
                res.sample(s, 1)
                first = False
            if v:
                res.violations.append(v)
                if res.full:
                    break
        return res
    first = True
    if shard[0] == "prune":
        progs = prune_programs(shard[1], seed)
    elif shard[0] == "prune12":
        progs = prune_programs_12(shard[1], seed)
    else:
        progs = prune_programs_2d(shard[1], shard[2], seed, shard[3])
    for prog in progs:
        try:
            with horizon(30.0):
                v = prune_case(prog, res)
        except Horizon as hz:
            v = viol(prog, str(hz), "no termination")
        res.states += 1
        res.traces += 1
        res.evaluations += 1
        if first:
            res.sample(prog, 1)
            first = False
        if v:
            res.violations.append(v)
            if res.full:
                break
    return res


def replay(case):
    p = case["program"]
    if p.get("part") == "learn":
        ch = seams.Chooser(p["script"], 0)
        r, _ = learn_once(p["cfg"], ch)
        if r:
            return viol(p, r[0], "SupervisedOPF.learn: " + r[1])
        return None
    if p.get("part") == "prune":
        return prune_case(p)
    return mark_case(p)
