"""C13 - density clustering produces a well-formed forest that partitions the
samples.  Explorer E over lattice data (heavy ties, duplicates), generic
sets and pre-computed graphs, all k ranges, both density models."""
import numpy as np

from mc import enum as E
from mc import knn as K
from mc import seams
from mc.runner import Result, horizon, Horizon

ID = "C13"
TITLE = "density clustering yields a well-formed partitioning forest"
RULE = ("UnsupervisedOPF and KNNSupervisedOPF fitted on every point sequence over {0..3} "
        "(n=3..5) and {0,1,2}^2 (n=3..4), on a generic tie-free set, and (unsupervised) on every "
        "graph of G(4,3,zero)/G(5,2,zero) as a pre-computed matrix, for all 1 <= min_k <= max_k "
        "<= n-1 and several metrics, each with the natural validation criterion AND with every k of "
        "the range forced through the intercepted criterion; plus a squeezed-density family (5-7 "
        "points given by every gap sequence over a small gap alphabet, ascending and descending, "
        "and one extreme outlier that compresses all densities into a window of width < 1); the "
        "final forest is checked field by field (acyclic, one "
        "root per sample, root/cluster/label fields, root cost = density, non-root cost = "
        "min(cost(pred), density) > density-1, predecessor was a k-NN graph neighbour - "
        "adjacency snapshotted at the last density estimate and again just before arcs are "
        "destroyed -, density within 1 of the root's, cluster ids 0..n_clusters-1, label "
        "propagation). Non-trivial = at least one non-root sample and either tied densities "
        "or more than one cluster")
ASSUMPTIONS = [
    "k <= n-1 (the library indexes the k-th neighbour)",
    "KNN-supervised validation set = the training set (keeps the accuracy routine in its domain)",
    "n <= 5 samples",
]
METRICS = {"quick": ["euclidean", "log_squared_euclidean"],
           "thorough": ["euclidean", "log_squared_euclidean", "manhattan", "chebyshev",
                        "squared_euclidean", "canberra", "gower"]}
GENERIC = [(0.0, 0.0), (1.0, 0.3), (0.2, 2.1), (4.0, 1.1), (3.3, 5.2), (7.1, 2.4)]


def bounds(tier):
    return {"lattice": ["P(3..5,{0..3})", "P(3,{0,1,2}^2)" + (", P(4,{0,1,2}^2)" if tier == "thorough" else "")], "generic": "arrangements of 4(5) of 6 points",
            "pre_computed(unsupervised)": ["G(4,3,zero)", "G(5,2,zero)"],
            "k_ranges": "all 1<=min_k<=max_k<=n-1; every k also forced via the scripted criterion",
            "squeezed": "gap sequences over %s, 5..7 points + outlier, both orders, k forced 1..3" % GAPS[tier],
            "metrics": METRICS[tier]}


TIER = ["quick"]


def plan(tier, seed):
    TIER[0] = tier
    shards = []
    for mt in METRICS[tier]:
        for n in (3, 4, 5):
            for a, b in E.chunks(4 ** n, 32 if n == 5 else 64):
                shards.append(("lat", "1d", n, mt, a, b))
        for n in (3, 4):
            if n == 4 and tier == "quick":
                continue  # P(4,{0,1,2}^2) is explored in the thorough tier
            for a, b in E.chunks(9 ** n, 120):
                shards.append(("lat", "2d", n, mt, a, b))
        shards.append(("gen", 4, mt))
        if tier == "thorough":
            shards.append(("gen", 5, mt))
    for m in (5, 6, 7):
        tot = len(GAPS[tier]) ** (m - 1)
        for a, b in E.chunks(tot, 40 if tier == "quick" else 200):
            shards.append(("squeeze", m, tier, a, b))
    # deep trees: 6..32 equally spaced samples of one class (a density plateau conquered sample by
    # sample) followed by a few samples of another class, k = 1; and shrinking gaps (rising densities)
    shards.append(("chain", 6, 20))
    shards.append(("chain", 20, 33))
    for a, b in E.chunks(729, 60):
        shards.append(("g", 4, 3, a, b))
    for a, b in E.chunks(1024, 64):
        shards.append(("g", 5, 2, a, b))
    return shards


def warm():
    from mc.warm import warm_metrics
    warm_metrics()


def k_ranges(n):
    return [(a, b) for b in range(1, n) for a in range(1, b + 1)]


def programs(shard, seed):
    """natural criterion, plus every k of the range forced through the scripted criterion"""
    for p in _programs(shard, seed):
        yield p
        lo = p.get("min_k", 1)
        small = len(p["labels"]) <= 4 and shard[0] != "gen"
        if shard[0] == "squeeze" or (p["max_k"] > lo and (small or TIER[0] == "thorough")):
            for k in range(lo, p["max_k"] + 1):
                q = dict(p)
                q["force_k"] = k
                yield q


GAPS = {"quick": [0.2, 0.5, 0.8], "thorough": [0.2, 0.3, 0.5, 0.8, 1.1]}


def _programs(shard, seed):
    import itertools
    kind = shard[0]
    if kind == "squeeze":
        # densities squeezed into a window of width < 1 by one extreme outlier: ordinary
        # points = every gap sequence over a small gap alphabet, ascending and descending
        _, m, tier, a, b = shard
        gaps = GAPS[tier]
        sc = [1.0, 0.5, 2.0, 1.5][seed % 4] if seed else 1.0
        for gi in range(a, b):
            gs = [gaps[i] for i in E.sequence_at(len(gaps), m - 1, gi)]
            xs = [0.0]
            for g_ in gs:
                xs.append(round(xs[-1] + g_ * sc, 6))
            for order in (xs, xs[::-1]):
                X = [[x] for x in order] + [[2000.0 * sc]]
                for lab in ([0] * m + [1], [i % 2 for i in range(m)] + [1]):
                    yield {"model": "KNNSupervisedOPF", "mode": "features", "X": X, "metric": "euclidean",
                           "labels": lab, "max_k": 3, "val": {"X": X, "labels": lab}}
                yield {"model": "UnsupervisedOPF", "mode": "features", "X": X, "metric": "euclidean",
                       "labels": [0] * m + [1], "min_k": 1, "max_k": 3}
        return
    if kind == "chain":
        _, a, b = shard
        sc = [1.0, 0.5, 2.0, 1.5][seed % 4] if seed else 1.0
        for n in range(a, b):
            even = [sc * i for i in range(n)]
            shrink, x = [], 0.0
            for i in range(n):
                shrink.append(x)
                x += sc * (2.0 - 0.04 * i)
            for xs, far in ((even, False), (even, True), (shrink, False), (shrink[::-1], False)):
                tail = [max(xs) + sc * 9.0 + 0.3 * sc * j for j in range(4)]
                if far:
                    # the other class equally spaced as well: every density ties, the plateau is one path
                    tail = [max(xs) + sc * 81.0 + sc * j for j in range(4)]
                X = [[v] for v in xs] + [[v] for v in tail]
                for la, lb in ((1, 2), (0, 1)):
                    lab = [la] * n + [lb] * 4
                    yield {"model": "KNNSupervisedOPF", "mode": "features", "X": X, "metric": "euclidean",
                           "labels": lab, "max_k": 1, "val": {"X": X, "labels": lab}}
                yield {"model": "UnsupervisedOPF", "mode": "features", "X": X, "metric": "euclidean",
                       "labels": [1] * n + [2] * 4, "min_k": 1, "max_k": 1}
        return
    if kind == "lat":
        _, lk, n, metric, a, b = shard
        pts = E.lattice(lk, seed, positive=(metric == "canberra"))
        labs = E.labelings(n, max_classes=2) if n >= 5 or lk == "2d" else E.labelings(n)
        for si in range(a, b):
            seq = E.sequence_at(len(pts), n, si)
            X = [list(pts[i]) for i in seq]
            for mn, mx in k_ranges(n):
                yield {"model": "UnsupervisedOPF", "mode": "features", "X": X, "metric": metric,
                       "labels": [i % 2 for i in range(n)], "min_k": mn, "max_k": mx}
                if lk == "1d" and n == 4 and mn == 1:
                    # sample identifiers that are not the positions (no pre-computed distances in use)
                    for I in ([3, 2, 1, 0], [7, 5, 9, 11]):
                        yield {"model": "UnsupervisedOPF", "mode": "features", "X": X, "metric": metric,
                               "labels": [i % 2 for i in range(n)], "min_k": mn, "max_k": mx, "I_train": I}
            for lab in labs:
                lab = list(E.rename_classes(lab, seed))
                for mx in range(1, n):
                    yield {"model": "KNNSupervisedOPF", "mode": "features", "X": X, "metric": metric,
                           "labels": lab, "max_k": mx, "val": {"X": X, "labels": lab}}
    elif kind == "gen":
        _, n, metric = shard
        pts = GENERIC if metric != "canberra" else [(x + 1, y + 1) for x, y in GENERIC]
        for arr in itertools.permutations(range(6), n):
            X = [list(pts[i]) for i in arr]
            for mn, mx in k_ranges(n):
                yield {"model": "UnsupervisedOPF", "mode": "features", "X": X, "metric": metric,
                       "labels": [i % 2 for i in range(n)], "min_k": mn, "max_k": mx}
            lab = [i % 2 for i in range(n)]
            for mx in range(1, n):
                yield {"model": "KNNSupervisedOPF", "mode": "features", "X": X, "metric": metric,
                       "labels": lab, "max_k": mx, "val": {"X": X, "labels": lab}}
    else:
        _, n, m, a, b = shard
        table = E.value_table(seed, m, zero=True)
        for gi in range(a, b):
            W = E.matrix_from_ranks(n, E.graph_ranks(n, m, gi), table).tolist()
            for mn, mx in k_ranges(n):
                yield {"model": "UnsupervisedOPF", "mode": "pre", "W": W,
                       "labels": [i % 2 for i in range(n)], "min_k": mn, "max_k": mx}


def force_k(prog):
    """With prog["force_k"] = k the validation criterion is an intercepted environment answer
    scripted so that training selects exactly that k (the forest must be well formed for
    whichever k validation prefers)."""
    import contextlib
    k = prog.get("force_k")
    if k is None:
        return contextlib.nullcontext()
    calls = [0]
    if prog["model"] == "KNNSupervisedOPF":
        import opfython.math.general as g

        def acc(labels, preds, *more, **kw):
            calls[0] += 1
            return 1.0 if calls[0] == k else 0.0

        return seams.patched(g, "opf_accuracy", acc)
    from opfython.models import UnsupervisedOPF
    target = k - prog["min_k"] + 1

    def cut(self, n_neighbours, *more, **kw):
        calls[0] += 1
        return 0.5 if calls[0] == target else 1.0

    return seams.patched(UnsupervisedOPF, "_normalized_cut", cut)


def adj_snapshot(sg):
    return [[int(a) for a in nd.adjacency] for nd in sg.nodes]


def run_case(prog, res=None):
    from opfython.subgraphs import KNNSubgraph
    log = []
    try:
        with force_k(prog), \
                seams.record_calls(KNNSubgraph, "calculate_pdf", log, adj_snapshot, "pdf"), \
                seams.record_calls(KNNSubgraph, "destroy_arcs", log, adj_snapshot, "destroy"):
            m = K.fit_program(prog)
            if prog["model"] == "UnsupervisedOPF":
                obs0 = K.observe(m)
                m.propagate_labels()
    except Horizon:
        raise
    except Exception as ex:
        return viol(prog, "fit raised %r" % (ex,), "fit raised %s" % type(ex).__name__)
    obs = K.observe(m)
    nodes = obs["nodes"]
    n = len(nodes)
    unsup = prog["model"] == "UnsupervisedOPF"
    pdf_calls = [e for e in log if e["call"] == "pdf"]
    knn_adj = pdf_calls[-1]["pre"] if pdf_calls else None      # k-NN lists of the final graph
    if unsup:
        final_adj = [nd["adj"] for nd in nodes]
    else:
        d = [e for e in log if e["call"] == "destroy"]
        final_adj = d[-1]["pre"] if d else None
    if knn_adj is None or final_adj is None:
        return viol(prog, "the training never estimated densities / never built arcs", "no arcs")
    Dm = K.dist_matrix(prog, m)
    kth = []
    for a in range(n):
        ds = sorted(Dm[a][b] for b in range(n) if b != a)
        kth.append(ds[min(obs["best_k"], n - 1) - 1])
    lab_field = "cluster" if unsup else "plabel"
    roots = [i for i in range(n) if nodes[i]["pred"] == -1]
    for i in range(n):
        nd = nodes[i]
        j, steps = i, 0
        while nodes[j]["pred"] != -1 and steps <= n:
            j = nodes[j]["pred"]
            if not (0 <= j < n):
                return viol(prog, "sample %d has a predecessor outside the graph" % i, "pred range")
            steps += 1
        if steps > n:
            return viol(prog, "predecessor links from sample %d cycle" % i, "pred cycle")
        if nd["root"] != j:
            return viol(prog, "sample %d records root %d but its predecessor links end in %d"
                        % (i, nd["root"], j), "root field")
        if nd[lab_field] != nodes[j][lab_field]:
            return viol(prog, "sample %d carries %s %d but its root %d carries %d"
                        % (i, "cluster" if unsup else "label", nd[lab_field], j, nodes[j][lab_field]),
                        "label not root's")
        if nd["pred"] == -1:
            if nd["cost"] != nd["density"]:
                return viol(prog, "root %d has cost %r but density %r" % (i, nd["cost"], nd["density"]),
                            "root cost")
        else:
            p = nd["pred"]
            if i not in final_adj[p]:
                return viol(prog, "sample %d has predecessor %d but is not in its adjacency %s"
                            % (i, p, final_adj[p]), "pred not adjacent")
            if not (i in knn_adj[p] or (p in knn_adj[i] and nodes[p]["density"] == nd["density"])):
                return viol(prog, "sample %d was conquered by %d which is neither one of whose k "
                            "nearest neighbours it is (%s) nor a same-density sample having it as "
                            "neighbour" % (i, p, knn_adj[p]), "pred not a graph neighbour")
            # independently of any adjacency the library kept: i must lie within the best_k-th
            # nearest-neighbour distance of p (or symmetrically, on a density plateau)
            kb = obs["best_k"]
            if not (Dm[p][i] <= kth[p] or (Dm[i][p] <= kth[i] and nodes[p]["density"] == nd["density"])):
                return viol(prog, "sample %d was conquered by %d, but d = %r exceeds the distance %r of "
                            "%d's %d-th nearest neighbour (best_k = %d): not an arc of the k-NN graph"
                            % (i, p, Dm[p][i], kth[p], p, kb, kb), "pred not within the k-NN radius")
            want = min(nodes[p]["cost"], nd["density"])
            if nd["cost"] != want:
                return viol(prog, "sample %d has cost %r, expected min(cost(pred)=%r, density=%r)"
                            % (i, nd["cost"], nodes[p]["cost"], nd["density"]), "cost not min")
            if not nd["cost"] > nd["density"] - 1:
                return viol(prog, "sample %d was conquered with cost %r not above density-1 = %r"
                            % (i, nd["cost"], nd["density"] - 1), "cost not above initial")
        if nd["density"] - nodes[j]["density"] >= 1:
            return viol(prog, "sample %d has density %r, its root %d only %r"
                        % (i, nd["density"], j, nodes[j]["density"]), "density exceeds root")
    if sorted(obs["idx_nodes"][-n:]) != list(range(n)):
        return viol(prog, "the last conquest order %s is not a permutation of the samples"
                    % obs["idx_nodes"][-n:], "order")
    if unsup:
        if obs["n_clusters"] != len(roots):
            return viol(prog, "n_clusters = %d but there are %d roots" % (obs["n_clusters"], len(roots)),
                        "n_clusters")
        ids = sorted(nodes[r]["cluster"] for r in roots)
        if ids != list(range(len(roots))):
            return viol(prog, "root cluster identifiers %s are not 0..%d" % (ids, len(roots) - 1),
                        "cluster ids")
        for i in range(n):
            if nodes[i]["plabel"] != prog["labels"][nodes[i]["root"]]:
                return viol(prog, "after propagate_labels sample %d has label %d, its root %d has "
                            "true label %d" % (i, nodes[i]["plabel"], nodes[i]["root"],
                                               prog["labels"][nodes[i]["root"]]), "propagate_labels")
    if res is not None:
        dens = [nd["density"] for nd in nodes]
        if len(roots) < n and (len(set(dens)) < n or len(roots) > 1):
            res.nontrivial += 1
        res.outcome((prog["model"][0], n, len(roots), obs["best_k"]))
    return None


def viol(prog, prob, sym):
    return {"check": "cluster-forest", "program": prog, "observed": prob,
            "allowed": "well-formed density forest", "explanation": prob,
            "fingerprint": "%s clustering: %s" % (prog["model"], sym)}


def run(shard, seed):
    res = Result()
    first = True
    for prog in programs(shard, seed):
        try:
            with horizon(10.0):
                v = run_case(prog, res)
        except Horizon as hz:
            v = viol(prog, str(hz), "no termination")
        res.evaluations += 1
        res.states += 1
        res.traces += 1
        res.transitions += 1
        if first:
            res.sample(prog, 1)
            first = False
        if v:
            res.violations.append(v)
            if res.full:
                break
    return res


def replay(case):
    return run_case(case["program"])
