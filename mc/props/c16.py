"""C16 - the neighbourhood size chosen by training is the best candidate.
Explorer D: the validation criterion (opf_accuracy / normalized cut) is an
intercepted environment answer; EVERY answer sequence over a small alphabet is
scripted.  Explorer E: the same oracle on the values the real criterion
produces (recorded by call-through wrappers)."""
import itertools

import numpy as np

from mc import enum as E
from mc import knn as K
from mc import seams
from mc.runner import Result, horizon, Horizon

ID = "C16"
TITLE = "chosen neighbourhood size is the best candidate"
RULE = ("scripted: for max_k in 1..4 (KNN) / every 1 <= min_k <= max_k <= 4 (unsupervised) on real "
        "5-sample training sets, EVERY sequence of criterion values over {0, 0.5, 1} (accuracy) / "
        "{0, 1e-21, 0.5, 1} (cut) is served through the intercepted criterion; natural: every point "
        "sequence over {0..3} (n=3,4; thorough 5) x validation sets x k ranges with the real "
        "criterion recorded; oracle: KNN best_k = smallest argmax over 1..max_k, all candidates "
        "evaluated once in order; unsupervised best_k = smallest argmin over the evaluated "
        "prefix, evaluation may only stop early right after an exact 0; the recorded final "
        "create_arcs / calculate_pdf / clustering calls use best_k; for the natural KNN criterion every "
        "candidate's validation accuracy is recomputed independently on a fresh subgraph (also with the very "
        "same arrays passed as training and validation set); unsupervised ranges up to k = 9 on ten samples. "
        "Non-trivial = the criterion "
        "sequence has a tie for the best value or the best is not the first candidate")
ASSUMPTIONS = [
    "criterion alphabets {0, 0.5, 0.5+3e-6, 1} / {0, 1e-21, 0.5, 1}; max_k <= 4",
    "every program is also run on an instance previously fitted on the preceding program "
    "(one-step instance history)",
    "the criterion is intercepted at opfython.math.general.opf_accuracy and "
    "UnsupervisedOPF._normalized_cut (module / class attributes looked up at call time)",
]
TRAIN = {"X": [[0.0], [1.0], [2.5], [6.0], [7.0]], "labels": [0, 0, 1, 1, 0]}
TRAIN10 = {"X": [[0.0], [1.0], [2.5], [6.0], [7.0], [7.5], [11.0], [12.0], [20.0], [21.5]],
           "labels": [0, 0, 1, 1, 0, 1, 0, 0, 1, 1]}
TRAIN14 = {"X": [[float(i) * 1.5 + (i % 3) * 0.2] for i in range(14)],
           "labels": [0, 0, 1, 1, 0, 1, 0, 0, 1, 1, 0, 1, 1, 0]}
TRAIN2 = {"X": [[0.0, 0.0], [1.0, 0.0], [0.0, 1.0], [5.0, 5.0], [5.0, 6.0]], "labels": [0, 1, 0, 1, 1]}


def bounds(tier):
    return {"scripted_knn": "max_k 1..4, alphabet {0,0.5,0.5+3e-6,1}: 340 sequences x 2 training sets",
            "scripted_unsupervised": "all 1<=min_k<=max_k<=4, alphabet {0,1e-21,0.5,1} x 2 training sets",
            "natural": "P(3..4%s,{0..3}) x validation sets x all k ranges" % (",5" if tier == "thorough" else "")}


def plan(tier, seed):
    shards = [("sk", ti, mk) for ti in (0, 1) for mk in (1, 2, 3, 4)]
    shards += [("su", ti, mn, mx) for ti in (0, 1) for mx in (1, 2, 3, 4) for mn in range(1, mx + 1)]
    for n in (3, 4) + ((5,) if tier == "thorough" else ()):
        for a, b in E.chunks(4 ** n, 16):
            shards.append(("nat", n, a, b))
    if tier == "quick":
        # five samples, reduced: KNN-supervised only, three labelings, two validation sets
        for a, b in E.chunks(4 ** 5, 64):
            shards.append(("nat", 5, a, b, "knn5"))
    # unevenly spaced points (arc lengths 0.5, 0.75, 1.5, ...: 1/d differs from d), unsupervised only
    for n in (4, 5):
        for a, b in E.chunks(4 ** n, 64):
            shards.append(("nat", n, a, b, "uneven"))
    # ... and under a direction-dependent dissimilarity (d(a, b) != d(b, a)), on positive points
    for n in (4, 5):
        for a, b in E.chunks(4 ** n, 64):
            shards.append(("nat", n, a, b, "neyman"))
    # twelve candidates (two-digit k) on a fourteen-sample set: the top accuracy at every single k
    # and at every pair of k (ties between one- and two-digit candidates)
    for part in range(4):
        shards.append(("sk14", part))
    # candidate ranges up to k = 9 on a ten-sample set (ranges that cross 8 included)
    for mx in range(1, 10):
        for mn in range(max(1, mx - 3), mx + 1):
            shards.append(("su10", mn, mx))
    return shards


def warm():
    from mc.warm import warm_metrics
    warm_metrics()


# --------------------------------------------------------------------------
def reference_cut(model, k):
    """The normalised cut of the clustering the model currently holds, from its definition: every
    sample contributes the arcs of its adjacency list (k nearest neighbours plus plateau arcs) with
    weight 1/d (arcs of length 0 carry no weight) to the internal or external weight of its own
    cluster; the cut is the sum over clusters of external / (internal + external).  Read-only."""
    sg = model.subgraph
    nodes = sg.nodes
    internal, external = {}, {}
    for i in range(sg.n_nodes):
        ci = int(nodes[i].cluster_label)
        internal.setdefault(ci, 0.0)
        external.setdefault(ci, 0.0)
        for t in range(int(nodes[i].n_plateaus) + int(k)):
            j = int(nodes[i].adjacency[t])
            if model.pre_computed_distance:
                d = float(model.pre_distances[nodes[i].idx][nodes[j].idx])
            else:
                d = float(model.distance_fn(nodes[i].features.copy(), nodes[j].features.copy()))
            if d > 0.0:
                if ci == int(nodes[j].cluster_label):
                    internal[ci] += 1.0 / d
                else:
                    external[ci] += 1.0 / d
    cut = 0.0
    for c in sorted(internal):
        if internal[c] + external[c] > 0.0:
            cut += external[c] / (internal[c] + external[c])
    return cut


def execute(prog, model=None):
    """Runs fit with the criterion scripted (prog['script'] not None) or
    recorded.  Returns dict(values, evaluated, best_k, calls).  With model=<object>
    the fit runs on that already used instance."""
    import opfython.math.general as g
    from opfython.subgraphs import KNNSubgraph
    from opfython.models import UnsupervisedOPF, KNNSupervisedOPF
    script = prog.get("script")
    values = []
    evaluated = []
    calls = []
    cut_refs = []
    unsup = prog["model"] == "UnsupervisedOPF"

    if unsup:
        orig_cut = UnsupervisedOPF._normalized_cut

        def cut(self, n_neighbours, *more, **kw):
            # (further arguments of a re-organised private routine are passed through untouched)
            evaluated.append(int(n_neighbours))
            if script is not None:
                if len(values) >= len(script):
                    raise seams.ScriptExhausted("criterion evaluated more often than candidates exist")
                v = float(script[len(values)])
            else:
                v = float(orig_cut(self, n_neighbours, *more, **kw))
                try:
                    cut_refs.append(reference_cut(self, n_neighbours))
                except Horizon:
                    raise
                except Exception:
                    cut_refs.append(None)
            values.append(v)
            return v

        ctx = seams.patched(UnsupervisedOPF, "_normalized_cut", cut)
    else:
        orig_acc = g.opf_accuracy

        def acc(labels, preds, *more, **kw):
            # (further arguments a re-organised caller may pass are handed through untouched)
            if script is not None:
                if len(values) >= len(script):
                    raise seams.ScriptExhausted("criterion evaluated more often than candidates exist")
                v = float(script[len(values)])
            else:
                v = float(orig_acc(labels, preds, *more, **kw))
            values.append(v)
            return v

        ctx = seams.patched(g, "opf_accuracy", acc)

    cls = UnsupervisedOPF if unsup else KNNSupervisedOPF
    orig_cl = cls._clustering

    def clustering(self, *a, **kw):
        calls.append(("clustering", a, tuple(sorted(kw.items())), int(self.subgraph.best_k)))
        return orig_cl(self, *a, **kw)

    log = []
    with ctx, seams.patched(cls, "_clustering", clustering), \
            seams.record_calls(KNNSubgraph, "create_arcs", log, None, "create_arcs"), \
            seams.record_calls(KNNSubgraph, "calculate_pdf", log, None, "calculate_pdf"):
        m = K.fit_program(prog, model)
    for e in log:
        # the neighbourhood size is the first positional argument, or - if a caller names it - the
        # keyword `k` / `n_neighbours` (create_arcs / calculate_pdf)
        kv = e["args"][0] if e["args"] else e["kwargs"].get("k", e["kwargs"].get("n_neighbours"))
        calls.append((e["call"], int(kv)))
    if not unsup:
        # KNN evaluates candidates in the order of its create_arcs calls
        ks = [c[1] for c in calls if c[0] == "create_arcs"]
        evaluated = ks[:len(values)]
    return {"values": values, "evaluated": evaluated, "best_k": int(m.subgraph.best_k),
            "calls": calls, "model": m, "cut_refs": cut_refs}


def independent_cuts(prog, ks):
    """Normalised cut of every candidate k recomputed outside the candidate loop: a fresh model
    restricted to the single candidate k (min_k = max_k = k) fitted on the same data; the value its
    own (recorded, reference-checked) criterion reports."""
    out = []
    for k in ks:
        p1 = dict(prog, min_k=int(k), max_k=int(k))
        p1.pop("script", None)
        try:
            ex = execute(p1)
            r = (ex.get("cut_refs") or [None])[0]
            out.append(r if r is not None else ex["values"][0])
        except Horizon:
            raise
        except Exception:
            out.append(None)
    return out


def independent_accuracies(prog):
    """Validation accuracy of every candidate k, recomputed outside the training loop: a fresh
    k-NN subgraph per k (arcs, densities, clustering), predictions on the validation set, and the
    accuracy from the definition."""
    from opfython.models import KNNSupervisedOPF
    from opfython.subgraphs import KNNSubgraph
    from mc.props import c20
    X = np.array(prog["X"], dtype=float)
    lab = np.array(prog["labels"], dtype=int)
    Xv = np.array(prog["val"]["X"], dtype=float)
    Yv = [int(v) for v in prog["val"]["labels"]]
    out = []
    for k in range(1, prog["max_k"] + 1):
        m = KNNSupervisedOPF(max_k=k, distance=prog["metric"])
        m.subgraph = KNNSubgraph(X.copy(), lab.copy())
        m.subgraph.best_k = k
        m.subgraph.create_arcs(k, m.distance_fn, False, None)
        m.subgraph.calculate_pdf(k, m.distance_fn, False, None)
        m._clustering()
        preds = [int(p) for p in m.predict(Xv.copy())]
        K = max(max(Yv), max(preds)) + 1
        if all(Yv.count(c) for c in range(K)):
            out.append(float(c20.ref_measures(Yv, preds, K)[0]))
        else:
            # a class without validation samples has no false-negative rate; its false positives
            # still count, and K is the number of classes among labels and predictions
            from fractions import Fraction as Fr
            n_, s_ = len(Yv), Fr(0)
            for cl in range(K):
                nc = Yv.count(cl)
                fp = sum(1 for y, p_ in zip(Yv, preds) if p_ == cl and y != cl)
                fn = sum(1 for y, p_ in zip(Yv, preds) if y == cl and p_ != cl)
                if n_ - nc > 0:
                    s_ += Fr(fp, n_ - nc)
                if nc > 0:
                    s_ += Fr(fn, nc)
            out.append(float(1 - s_ / (2 * K)))
    return out


def judge(prog, ex):
    unsup = prog["model"] == "UnsupervisedOPF"
    vals, ev, bk = ex["values"], ex["evaluated"], ex["best_k"]
    if not unsup and prog.get("script") is None and prog["mode"] == "features":
        # natural criterion: the values the training loop used must be the real validation accuracies
        try:
            true = independent_accuracies(prog)
        except Horizon:
            raise
        except Exception:
            true = None
        if true is not None and all(t is not None for t in true) and len(true) == len(vals):
            for k, (t, v) in enumerate(zip(true, vals), 1):
                if abs(t - v) > 1e-9:
                    return ("candidate k=%d was scored %r by the training loop, but the validation accuracy of "
                            "the model built with k=%d is %r (all candidates: %s)" % (k, v, k, t, true)), \
                        "criterion is not the validation accuracy"
            best = max(true)
            want = true.index(best) + 1
            if bk != want:
                return ("validation accuracies %s: best_k = %d but the smallest k with the highest accuracy is %d"
                        % (true, bk, want)), "best_k is not the best candidate"
    if unsup and prog.get("script") is None:
        # natural criterion: the value the training loop used must be the normalised cut of the
        # clustering it had just built
        for kk, v, r in zip(ev, vals, ex.get("cut_refs") or []):
            if r is not None and abs(r - v) > 1e-9 * max(1.0, abs(r)):
                return ("candidate k=%d was scored %r by the training loop, but the normalised cut of the "
                        "clustering built with k=%d is %r" % (kk, v, kk, r)), "criterion is not the normalised cut"
        if prog.get("min_k") != prog.get("max_k") and not prog.get("no_cross"):
            # ... and the clustering a candidate is scored on must be the clustering of a model built with
            # that k alone
            solo = independent_cuts(prog, ev)
            for kk, v, r in zip(ev, vals, solo):
                if r is not None and abs(r - v) > 1e-9 * max(1.0, abs(r)):
                    return ("candidate k=%d was scored %r inside the range %d..%d, but a model restricted to "
                            "k=%d alone has normalised cut %r" % (kk, v, prog["min_k"], prog["max_k"], kk, r)), \
                        "candidate not scored on the clustering of its own k"
    lo = prog["min_k"] if unsup else 1
    hi = prog["max_k"]
    cand = list(range(lo, hi + 1))
    if unsup:
        if ev != cand[:len(ev)] or not ev:
            return "candidates evaluated %s are not a prefix of %s" % (ev, cand), "candidates not a prefix"
        if len(ev) < len(cand) and vals[len(ev) - 1] != 0.0:
            return ("evaluation stopped after k=%d with cut %r although only an exact 0 allows "
                    "stopping early (values %s)" % (ev[-1], vals[-1], vals)), "stopped early without zero cut"
        best = min(vals)
        want = ev[vals.index(best)]
    else:
        if ev != cand:
            return "candidates evaluated %s, expected every k in %s once, in order" % (ev, cand), \
                "candidates not all evaluated"
        best = max(vals)
        want = ev[vals.index(best)]
    if bk != want:
        return ("criterion values %s for k = %s: best_k = %d but the smallest k with the %s value is %d"
                % (vals, ev, bk, "lowest" if unsup else "highest", want)), "best_k is not the best candidate"
    creates = [c[1] for c in ex["calls"] if c[0] == "create_arcs"]
    pdfs = [c[1] for c in ex["calls"] if c[0] == "calculate_pdf"]
    clus = [c for c in ex["calls"] if c[0] == "clustering"]
    if not creates or creates[-1] != want or not pdfs or pdfs[-1] != want:
        return ("the final graph was built with create_arcs(%s) / calculate_pdf(%s), expected k = %d"
                % (creates[-1:] or None, pdfs[-1:] or None, want)), "final model not built with best_k"
    last = clus[-1] if clus else None
    if last is None:
        return "no final clustering call", "final model not built with best_k"
    if unsup:
        if list(last[1]) != [want] and dict(last[2]).get("n_neighbours") != want:
            return "the final clustering used %r, expected k = %d" % (last[1:3], want), \
                "final model not built with best_k"
    else:
        if last[3] != want:
            return "the final clustering ran with best_k = %d, expected %d" % (last[3], want), \
                "final model not built with best_k"
    return None, None


def run_case(prog, res=None):
    try:
        model = None
        if prog.get("previous") is not None:
            # one-step history: the same instance was fitted on another program before
            try:
                model = execute(prog["previous"])["model"]
            except Horizon:
                raise
            except Exception:
                model = None
        ex = execute(prog, model)
    except Horizon:
        raise
    except seams.ScriptExhausted as se:
        return viol(prog, str(se), "criterion evaluated too often")
    except Exception as exn:
        return viol(prog, "fit raised %r" % (exn,), "fit raised %s" % type(exn).__name__)
    p, sym = judge(prog, ex)
    if res is not None:
        vals = ex["values"]
        if vals:
            unsup = prog["model"] == "UnsupervisedOPF"
            best = min(vals) if unsup else max(vals)
            if vals.count(best) > 1 or vals.index(best) != 0:
                res.nontrivial += 1
        res.transitions += len(ex["calls"])
        res.outcome((prog["model"][0], ex["best_k"], len(ex["values"])))
    if p:
        return viol(prog, p, sym)
    return None


def viol(prog, prob, sym):
    return {"check": "k-selection", "program": prog, "observed": prob,
            "allowed": "smallest k attaining the best criterion value; final model built with it",
            "explanation": prob, "fingerprint": "%s k-selection: %s" % (prog["model"], sym)}


def programs(shard, seed):
    """Every program is run twice: on a fresh instance, and on an instance that was
    fitted on the preceding program of the enumeration (same model kind)."""
    prev = {}
    for p in _programs(shard, seed):
        yield p
        q = prev.get(p["model"])
        if q is not None:
            r = dict(p)
            r["previous"] = q
            yield r
        prev[p["model"]] = p


def _programs(shard, seed):
    kind = shard[0]
    sc = [1.0, 0.5, 2.0, 3.0][seed % 4] if seed else 1.0
    if kind == "sk":
        _, ti, mk = shard
        T = [TRAIN, TRAIN2][ti]
        X = (np.array(T["X"]) * sc).tolist()
        for script in itertools.product([0.0, 0.5, 0.5 + 3e-6, 1.0], repeat=mk):
            yield {"model": "KNNSupervisedOPF", "mode": "features", "X": X, "metric": "euclidean",
                   "labels": T["labels"], "max_k": mk, "val": {"X": X, "labels": T["labels"]},
                   "script": list(script)}
    elif kind == "sk14":
        X = (np.array(TRAIN14["X"]) * sc).tolist()
        ks = list(range(12))
        subsets = [()] + [(a,) for a in ks] + list(itertools.combinations(ks, 2))
        for si, sub in enumerate(subsets):
            if si % 4 != shard[1]:
                continue
            script = [1.0 if k in sub else 0.5 for k in ks]
            yield {"model": "KNNSupervisedOPF", "mode": "features", "X": X, "metric": "euclidean",
                   "labels": TRAIN14["labels"], "max_k": 12, "val": {"X": X, "labels": TRAIN14["labels"]},
                   "script": script}
    elif kind == "su10":
        _, mn, mx = shard
        X = (np.array(TRAIN10["X"]) * sc).tolist()
        alphabet = [0.0, 1e-21, 0.5, 1.0] if mx - mn < 3 else [0.0, 0.5, 1.0]
        for script in itertools.product(alphabet, repeat=mx - mn + 1):
            yield {"model": "UnsupervisedOPF", "mode": "features", "X": X, "metric": "euclidean",
                   "labels": TRAIN10["labels"], "min_k": mn, "max_k": mx, "script": list(script)}
    elif kind == "su":
        _, ti, mn, mx = shard
        T = [TRAIN, TRAIN2][ti]
        X = (np.array(T["X"]) * sc).tolist()
        for script in itertools.product([0.0, 1e-21, 0.5, 1.0], repeat=mx - mn + 1):
            yield {"model": "UnsupervisedOPF", "mode": "features", "X": X, "metric": "euclidean",
                   "labels": T["labels"], "min_k": mn, "max_k": mx, "script": list(script)}
    else:
        _, n, a, b = shard[:4]
        uneven = len(shard) > 4
        pts = E.lattice("1d", seed)
        metric = "euclidean"
        knn5 = uneven and shard[4] == "knn5"
        if knn5:
            uneven = False
        if uneven:
            pts = [(v * sc,) for v in (0.0, 0.5, 2.0, 2.75)]
            if shard[4] == "neyman":
                metric = "neyman"
                pts = [(v * sc, (3.5 - v) * sc) for v in (0.5, 1.0, 2.5, 3.25)]
        for si in range(a, b):
            seq = E.sequence_at(len(pts), n, si)
            X = [list(pts[i]) for i in seq]
            for mx in range(1, n):
                for mn in range(1, mx + 1):
                    if knn5:
                        break
                    yield {"model": "UnsupervisedOPF", "mode": "features", "X": X, "metric": metric,
                           "labels": [i % 2 for i in range(n)], "min_k": mn, "max_k": mx, "script": None}
                if uneven:
                    continue
                if n == 4 and not knn5 and not uneven:
                    # three training classes, validation sets in which the highest one does not occur
                    # (the number of classes an accuracy is normalised with then depends on the candidate)
                    for lab3 in E.labelings(n, min_classes=3, max_classes=3):
                        for v in ({"X": [list(pts[1]), list(pts[0]), list(pts[3])], "labels": [0, 1, 0]},
                                  {"X": [list(pts[2]), list(pts[0]), list(pts[3]), list(pts[1])],
                                   "labels": [1, 0, 0, 1]}):
                            yield {"model": "KNNSupervisedOPF", "mode": "features", "X": X,
                                   "metric": "euclidean", "labels": list(lab3), "max_k": mx, "val": v,
                                   "script": None}
                labs5 = [tuple(i % 2 for i in range(n)), tuple(0 if i < n // 2 else 1 for i in range(n)),
                         tuple(1 if i == 2 else 0 for i in range(n))]
                for lab in (labs5 if knn5 else E.labelings(n, max_classes=2)):
                    lab = list(lab)
                    vals = [{"X": X, "labels": lab},
                            {"X": [list(pts[0]), list(pts[3]), list(pts[1])], "labels": [0, 1, 1]},
                            {"X": [list(pts[2]), list(pts[2])], "labels": [1, 0]}]
                    if knn5:
                        vals = vals[:2]
                    else:
                        # a validation set in which the highest training class does not occur
                        vals.append({"X": [list(pts[1]), list(pts[0]), list(pts[3])], "labels": [0, 0, 0]})
                    for v in vals:
                        yield {"model": "KNNSupervisedOPF", "mode": "features", "X": X,
                               "metric": "euclidean", "labels": lab, "max_k": mx, "val": v,
                               "script": None}
                    # the caller passes the very same array objects as training and validation set
                    yield {"model": "KNNSupervisedOPF", "mode": "features", "X": X, "metric": "euclidean",
                           "labels": lab, "max_k": mx, "val": {"X": X, "labels": lab}, "script": None,
                           "alias_val": True}


def run(shard, seed):
    res = Result()
    first = True
    for prog in programs(shard, seed):
        try:
            with horizon(10.0):
                v = run_case(prog, res)
        except Horizon as hz:
            v = viol(prog, str(hz), "no termination")
        res.evaluations += 1
        res.states += 1
        res.traces += 1
        if first:
            res.sample(prog, 1)
            first = False
        if v:
            res.violations.append(v)
            if res.full:
                break
    return res


def replay(case):
    return run_case(case["program"])
