"""C06 - each of the 47 named metrics computes its published closed form, and
the registry / model option / accepted-identifier sets agree.  Explorer E over
all ordered vector pairs of the value grids."""
import re

import numpy as np

from mc import grids
from mc.oracles import axioms, metrics_ref
from mc.runner import Result, horizon, Horizon

ID = "C06"
TITLE = "47 metrics compute their closed forms; registry = accepted identifiers"
RULE = ("for every identifier: every ordered pair (x, y) of equal-length vectors (length 1..3, "
        "thorough ..4) over the value grid of each domain class of the metric (R: reals with "
        "negatives/zero, N: non-negative with 0, P: strictly positive, S: probability vectors) "
        "is evaluated through DISTANCES[name] (the caller re-using two buffers overwritten in "
        "place) and compared with an independent scalar transcription of the closed form (1e-9 "
        "relative); a sweep over every vector length 1..160 and around 256/512/1024 with three "
        "structured pairs per length; the same reference is applied to "
        "OPF(distance=name).distance_fn and to the distance_fn of all four model constructors; "
        "the accepted-identifier set is probed with every candidate string. A pair is "
        "non-trivial when x != y (the value is not forced by d(x,x))")
ASSUMPTIONS = [
    "value grids only (no overflow/denormal inputs); lengths 1..3 (4 in thorough)",
    "the reference transcription's constant factors were cross-checked against the 47 pinned "
    "test values; a constant wrong in both the library and its pinned test is invisible",
    "mean_censored_euclidean is judged on strictly positive vectors only (its censoring count "
    "then equals the length)",
    "chord is compared before its final square root (absolute 1e-12 on the squared value)",
]
MODEL_KINDS = ["OPF", "SupervisedOPF", "SemiSupervisedOPF", "KNNSupervisedOPF", "UnsupervisedOPF"]


def classes_for(name):
    cl = list(axioms.domain_classes(name))
    if name in axioms.DECORATED:
        cl = cl + ["S0"]         # probability vectors with exact zeros (judged under the epsilon-shift convention)
    if name == "hassanat":
        cl = ["R"] + cl  # its closed form has an explicit branch for negative components
    return cl


def bounds(tier):
    return {"lengths": [1, 2, 3] + ([4] if tier == "thorough" else []),
            "length_sweep": "every length 1..160 (thorough ..519) and 255-257, 511-513, 1023-1025 "
                            "(thorough also 2047-2049, 4096) with 3 structured vector pairs each",
            "grid_values_per_class": 6 if tier == "quick" else 8,
            "metrics": 47, "model_kinds": MODEL_KINDS}


def plan(tier, seed):
    shards = []
    for name in axioms.NAMES:
        for cl in classes_for(name):
            shards.append(("form", name, cl, tier))
    for name in axioms.NAMES:
        shards.append(("registry", name, tier))
        shards.append(("lengths", name, tier))
    shards.append(("accepted", tier))
    # every identifier x every model class constructed first and kept alive, resolution checked afterwards
    shards.append(("alive", tier))
    return shards


def warm():
    from mc.warm import warm_metrics
    warm_metrics()


def lengths(tier):
    ls = list(range(1, 161)) + [255, 256, 257, 511, 512, 513, 1023, 1024, 1025]
    if tier == "thorough":
        ls += list(range(161, 520)) + [2047, 2048, 2049, 4096]
    return sorted(set(ls))


def agree(name, got, x, y):
    """None if got equals the closed form on (x, y), else a description."""
    try:
        got = float(got)
    except Exception:
        return "returned %r" % (got,)
    if name == "chord":
        ref2 = metrics_ref.chord_squared(x, y)
        ref2 = max(ref2, 0.0)
        if got != got or abs(got * got - ref2) > 1e-12:
            return "chord^2 = %r, closed form 2-2cos = %r" % (got * got if got == got else got, ref2)
        return None
    if name in axioms.DECORATED and (0.0 in tuple(x) or 0.0 in tuple(y)):
        # probability vectors may hold exact zeros, where the ratio / log forms are singular; the
        # library's documented convention (utils.decorator.avoid_zero_division, EPSILON = 1e-20) is to
        # evaluate the closed form on the vectors shifted by EPSILON - once
        x = tuple(v + 1e-20 for v in x)
        y = tuple(v + 1e-20 for v in y)
    ref = metrics_ref.REF[name](x, y)
    if got == ref:
        return None
    if got != got or abs(got - ref) > 1e-9 * max(1.0, abs(ref)):
        return "returned %r, closed form gives %r" % (got, ref)
    return None


def viol(name, via, x, y, prob):
    return {"check": "closed-form", "program": {"metric": name, "via": via, "x": list(x), "y": list(y)},
            "observed": prob, "allowed": "closed-form value up to rounding",
            "explanation": "%s(%s, %s) via %s %s" % (name, list(x), list(y), via, prob),
            "fingerprint": "metric %s via %s: closed form" % (name, via if via == "DISTANCES" else "model option")}


def resolve(name, via):
    import opfython.math.distance as D
    if via == "DISTANCES":
        return D.DISTANCES[name]
    import opfython.core.opf as O
    import opfython.models as M
    if via == "OPF":
        return O.OPF(distance=name).distance_fn
    if via == "KNNSupervisedOPF":
        return M.KNNSupervisedOPF(max_k=1, distance=name).distance_fn
    if via == "UnsupervisedOPF":
        return M.UnsupervisedOPF(min_k=1, max_k=1, distance=name).distance_fn
    return getattr(M, via)(distance=name).distance_fn


def save_load_resolution(name, seed):
    import os
    import tempfile
    import opfython.core.opf as O
    from mc.runner import scratch_dir
    other = "manhattan" if name != "manhattan" else "euclidean"
    d = tempfile.mkdtemp(prefix="c06-", dir=scratch_dir())
    try:
        a = O.OPF(distance=name)
        path = os.path.join(d, "m.pkl")
        a.save(path)
        b = O.OPF(distance=other)
        b.load(path)
        if b.distance != name:
            return "after loading a model saved with distance=%r the option reads %r" % (name, b.distance)
        V = grids.vectors(classes_for(name)[0], seed, "quick", dmax=2)
        for dd, vs in V.items():
            for x in vs[:6]:
                for y in vs[-6:]:
                    try:
                        got = b.distance_fn(np.array(x, dtype=float), np.array(y, dtype=float))
                    except Exception as ex:
                        got = "raised %r" % (ex,)
                    p = agree(name, got, x, y)
                    if p:
                        return ("OPF(distance=%r).save(); OPF(distance=%r).load(): option says %r but "
                                "distance_fn%s %s" % (name, other, b.distance, (list(x), list(y)), p))
        return None
    finally:
        import shutil
        shutil.rmtree(d, ignore_errors=True)


def build(name, via):
    import opfython.core.opf as O
    import opfython.models as M
    if via == "OPF":
        return O.OPF(distance=name)
    if via == "KNNSupervisedOPF":
        return M.KNNSupervisedOPF(max_k=1, distance=name)
    if via == "UnsupervisedOPF":
        return M.UnsupervisedOPF(min_k=1, max_k=1, distance=name)
    return getattr(M, via)(distance=name)


def run_alive(seed, res):
    """All 47 x 5 objects exist at the same time; only then is each one's option compared with the
    function it resolved to (an object's metric must not depend on which objects were built later)."""
    objs = []
    vias = [v for v in MODEL_KINDS if v != "DISTANCES"]
    for name in axioms.NAMES:
        for via in vias:
            try:
                objs.append((name, via, build(name, via)))
            except Exception:
                pass           # reported by the registry shards
    for name, via, m in objs + objs[::-1]:
        prob = None
        x = y = []
        if m.distance != name:
            prob = "the option reads %r" % (m.distance,)
        else:
            V = grids.vectors(classes_for(name)[0], seed, "quick", dmax=2)
            for dd, vs in V.items():
                for x in vs[:4]:
                    for y in vs[-4:]:
                        try:
                            got = m.distance_fn(np.array(x, dtype=float), np.array(y, dtype=float))
                        except Exception as ex:
                            got = "raised %r" % (ex,)
                        res.transitions += 1
                        res.nontrivial += 1
                        prob = agree(name, got, x, y)
                        if prob:
                            break
                    if prob:
                        break
                if prob:
                    break
        if prob:
            text = ("%s(distance=%r), used after %d other objects had been constructed: %s"
                    % (via, name, len(objs) - 1, prob))
            res.violations.append({
                "check": "registry", "program": {"metric": name, "via": "alive", "x": list(x), "y": list(y)},
                "observed": text, "allowed": "each object resolves its own identifier",
                "explanation": text, "fingerprint": "metric via model option: depends on other live objects"})
            break
    res.sample({"objects_alive": len(objs), "checked": "option and function of each, in both orders"}, 1)


def candidates():
    """registry keys U reference names U names quoted in the setter's error message."""
    import opfython.math.distance as D
    import opfython.core.opf as O
    cands = set(D.DISTANCES) | set(metrics_ref.REF)
    try:
        O.OPF(distance="__definitely_not_a_metric__")
    except Exception as ex:
        cands |= set(re.findall(r"`([a-z0-9_]+)`", str(ex)))
    for fn in dir(D):
        if fn.endswith("_distance"):
            cands.add(fn[:-len("_distance")])
    cands.discard("distance")
    return sorted(cands)


def run(shard, seed):
    res = Result()
    kind = shard[0]
    if kind == "form":
        _, name, cl, tier = shard
        fn = resolve(name, "DISTANCES")
        V = grids.vectors(cl, seed, tier)
        for d, vs in V.items():
            # the caller re-uses two buffers and overwrites them in place between calls
            # (values, not array identities, must determine the result)
            bx, by = np.zeros(d), np.zeros(d)
            prev_pair = None
            for i, x in enumerate(vs):
                bx[:] = x
                for j, y in enumerate(vs):
                    by[:] = y
                    try:
                        got = fn(bx, by)
                    except Exception as ex:
                        got = "raised %r" % (ex,)
                    if bx.tolist() != list(x) or by.tolist() != list(y):
                        got = "modified its arguments"
                    res.transitions += 1
                    prob = agree(name, got, x, y)
                    if i != j:
                        res.nontrivial += 1
                    if prob:
                        v = viol(name, "DISTANCES", x, y, prob)
                        if prev_pair is not None:
                            # the same two buffers held these values in the preceding call
                            v["program"]["previous"] = [list(prev_pair[0]), list(prev_pair[1])]
                        res.violations.append(v)
                        if res.full:
                            break
                    prev_pair = (x, y)
                if res.full:
                    break
            if res.full:
                break
            # the same pairs handed over as ROWS of one matrix (what the models do): the memory right
            # after a vector then holds the next row, not allocator padding
            M = np.array(list(vs) + [tuple([1e6] * d)], dtype=float)
            for i, x in enumerate(vs):
                for j, y in enumerate(vs):
                    try:
                        got = fn(M[i], M[j])
                    except Exception as ex:
                        got = "raised %r" % (ex,)
                    res.transitions += 1
                    res.nontrivial += 1
                    prob = agree(name, got, x, y)
                    if prob:
                        v = viol(name, "DISTANCES", x, y, "as rows %d and %d of a %dx%d matrix: %s"
                                 % (i, j, len(M), d, prob))
                        v["program"]["rows_of"] = [list(r) for r in M.tolist()]
                        v["program"]["ij"] = [i, j]
                        res.violations.append(v)
                        break
                if res.full or (res.violations and "rows_of" in res.violations[-1]["program"]):
                    break
        res.sample({"metric": name, "class": cl, "x": list(V[2][1]), "y": list(V[2][4])}, 1)
        res.outcome((name, cl))
    elif kind == "lengths":
        _, name, tier = shard
        fn = resolve(name, "DISTANCES")
        cl = classes_for(name)[0]
        vals = grids.values(cl if cl != "S" else "P", seed, "quick")
        for L in lengths(tier):
            pairs = []
            for (a1, b1, a2, b2) in ((3, 1, 5, 2), (7, 0, 2, 3), (1, 4, 1, 0)):
                pairs.append(([vals[(t * a1 + b1) % len(vals)] for t in range(L)],
                              [vals[(t * a2 + b2) % len(vals)] for t in range(L)]))
            if name in axioms.R_CLASS or name in axioms.N_CLASS:
                # large norm, tiny difference: formulas rearranged as |x|^2 - 2<x,y> + |y|^2 cancel here
                xs = [1000.0 + abs(vals[(t * 3 + 1) % len(vals)]) for t in range(L)]
                pairs.append((xs, [v + 1e-4 * (((t * 5) % 7) - 3) / 3.0 for t, v in enumerate(xs)]))
            for x, y in pairs:
                try:
                    got = fn(np.array(x, dtype=float), np.array(y, dtype=float))
                except Exception as ex:
                    got = "raised %r" % (ex,)
                res.transitions += 1
                res.nontrivial += 1
                prob = agree(name, got, x, y)
                if prob:
                    v = viol(name, "DISTANCES", x, y, "(length %d) %s" % (L, prob))
                    v["fingerprint"] = "metric %s: closed form at vector length" % name
                    res.violations.append(v)
                    break
            if res.violations:
                break
        res.outcome((name, "lengths"))
        res.sample({"metric": name, "lengths": "1..160, 255..257, 511..513, 1023..1025", "pairs_per_length": 3}, 1)
    elif kind == "registry":
        _, name, tier = shard
        for via in MODEL_KINDS:
            try:
                fn = resolve(name, via)
            except Exception as ex:
                res.violations.append({
                    "check": "registry", "program": {"metric": name, "via": via, "x": [], "y": []},
                    "observed": "constructor raised %r" % (ex,), "allowed": "a callable metric",
                    "explanation": "%s(distance=%r) raised %r" % (via, name, ex),
                    "fingerprint": "metric %s via model option: not accepted" % name})
                continue
            cl = classes_for(name)[0]
            V = grids.vectors(cl, seed, "quick", dmax=2)
            done = False
            for d, vs in V.items():
                for x in vs:
                    for y in vs:
                        try:
                            got = fn(np.array(x, dtype=float), np.array(y, dtype=float))
                        except Exception as ex:
                            got = "raised %r" % (ex,)
                        res.transitions += 1
                        if x != y:
                            res.nontrivial += 1
                        prob = agree(name, got, x, y)
                        if prob:
                            res.violations.append(viol(name, via, x, y, prob))
                            done = True
                            break
                    if done:
                        break
                if done:
                    break
            res.outcome((name, via))
        # the identifier must still resolve to its own closed form after a save / load round trip
        # into an object that was constructed with ANOTHER identifier
        prob = save_load_resolution(name, seed)
        res.transitions += 2
        if prob:
            res.violations.append({
                "check": "registry", "program": {"metric": name, "via": "save-load", "x": [], "y": []},
                "observed": prob, "allowed": "distance option and distance function agree after load",
                "explanation": prob, "fingerprint": "metric %s via model option: after save/load" % name})
        res.sample({"metric": name, "resolved_via": MODEL_KINDS + ["save/load into another identifier"]}, 1)
    elif kind == "alive":
        run_alive(seed, res)
    else:
        import opfython.math.distance as D
        import opfython.core.opf as O
        import opfython.utils.exception as EX
        reg = set(D.DISTANCES)
        accepted = set()
        for s in candidates():
            res.transitions += 1
            try:
                O.OPF(distance=s)
                accepted.add(s)
            except KeyError:
                accepted.add(s)  # passed the option check, missing from the registry
            except Exception:
                pass
            res.outcome(("accepted", s in accepted))
        prob = None
        if accepted != reg:
            prob = ("identifiers accepted by the models but absent from the registry: %s; in the "
                    "registry but rejected by the models: %s" % (sorted(accepted - reg), sorted(reg - accepted)))
        elif len(reg) != 47 or reg != set(axioms.NAMES):
            prob = ("registry has %d identifiers; differs from the 47 named ones by %s"
                    % (len(reg), sorted(reg ^ set(axioms.NAMES))))
        res.nontrivial += len(reg)
        if prob:
            res.violations.append({
                "check": "accepted-set", "program": {"metric": None, "via": "accepted", "x": [], "y": []},
                "observed": prob, "allowed": "identical sets of 47 identifiers", "explanation": prob,
                "fingerprint": "accepted identifiers != registry"})
        res.sample({"candidates_probed": len(candidates()), "accepted": len(accepted)}, 1)
    res.evaluations = res.transitions
    res.states = res.transitions
    res.traces = res.transitions
    return res


def replay(case):
    p = case["program"]
    if p["via"] in ("accepted", "alive"):
        r = run((p["via"], "quick"), int(case.get("seed", 0) or 0))
        return r.violations[0] if r.violations else None
    try:
        fn = resolve(p["metric"], p["via"])
    except Exception as ex:
        return {"check": "registry", "program": p, "observed": repr(ex), "allowed": "a callable metric",
                "explanation": "constructor raised %r" % (ex,),
                "fingerprint": "metric %s via model option: not accepted" % p["metric"]}
    if not p["x"]:
        return None
    try:
        if p.get("previous"):
            # re-create the one-step history: the caller's two buffers held other values before
            bx = np.array(p["previous"][0], dtype=float)
            by = np.array(p["previous"][1], dtype=float)
            try:
                fn(bx, by)
            except Exception:
                pass
            bx[:] = p["x"]
            by[:] = p["y"]
            got = fn(bx, by)
        elif p.get("rows_of"):
            M = np.array(p["rows_of"], dtype=float)
            got = fn(M[p["ij"][0]], M[p["ij"][1]])
        else:
            got = fn(np.array(p["x"], dtype=float), np.array(p["y"], dtype=float))
    except Exception as ex:
        got = "raised %r" % (ex,)
    prob = agree(p["metric"], got, tuple(p["x"]), tuple(p["y"]))
    if prob:
        v = viol(p["metric"], p["via"], p["x"], p["y"], prob)
        for k in ("rows_of", "ij", "previous"):
            if k in p:
                v["program"][k] = p[k]
        return v
    return None
