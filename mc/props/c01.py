"""C01 - supervised training yields an optimum-path forest under the max-arc
cost.  Explorer E: every (graph, labeling) of the bounded families is fitted
with the real SupervisedOPF and the resulting forest is compared with the
minimax-path reference."""
from mc import enum as E
from mc import sup
from mc.oracles import forest as F
from mc.runner import Result, horizon, Horizon

ID = "C01"
TITLE = "supervised training yields an optimum-path forest"
RULE = ("every weighted complete graph of the families in coverage.bounds (all weak orderings "
        "of the edges for n<=4, all weight assignments over an ordered alphabet for larger n, "
        "zero weights included) x every labeling with >=2 classes up to class renaming, fed as "
        "a pre-computed matrix; plus every point sequence over a lattice (duplicates, all "
        "orders) under named metrics; a case is non-trivial when some non-prototype's optimum "
        "cost is attained only through an intermediate sample (path of >=2 arcs) or two "
        "prototypes of different classes tie for it; further families: non-identity index arrays into a larger "
        "matrix, weights scaled by 1e-25..1e25, class ids 3/1000/257/70000, P(7,{0..3}), Fortran / transposed / "
        "strided training matrices, crash-point enumeration (the same object first runs a fit interrupted at "
        "every metric call / matrix access), and the classifier left by learn() for every RNG answer sequence")
ASSUMPTIONS = [
    "the prototype set S flagged by the implementation is taken as given here (C02 judges S)",
    "n <= 5 (quick) / 6 (thorough) samples; weight alphabets of 2-3 values beyond n = 4 "
    "(n <= 4 covers every weak ordering of the edges, which is complete for a "
    "comparison-based algorithm)",
    "feature mode uses metrics that are exactly symmetric in floating point",
]

QUICK_METRICS = ["euclidean", "manhattan"]
SCALES = [1e-25, 1e-7, 1e25]
THOROUGH_METRICS = ["euclidean", "manhattan", "log_squared_euclidean", "chebyshev",
                    "squared_euclidean", "gower", "lorentzian", "hamming",
                    "average_euclidean", "log_euclidean", "non_intersection"]


def bounds(tier):
    b = {"pre_computed": ["WO(3) x L(3)", "WO(4) x L(4)", "G(4,3,zero) x L(4)",
                          "G(5,2) x L(5)", "G(4,3,zero) and G(5,2) again through a non-identity "
                          "index array into a larger matrix with decoy rows",
                          "G(4,3,zero) and WO(4) with all weights scaled by 1e-25, 1e-7, 1e25"],
         "features": ["P(4, {0,1,2}^2) x L(4) x %s" % QUICK_METRICS,
                      "P(5, {0..3}) x L(5) x ['log_squared_euclidean']",
                      "P(7, {0..3}) x 2 labelings x ['euclidean']"]}
    if tier == "thorough":
        b["pre_computed"] += ["G(5,3,zero) x L(5)", "G(6,2) x L(6)"]
        b["features"] = ["P(4, {0,1,2}^2) x L(4) x %s" % THOROUGH_METRICS,
                         "P(5, {0..3}) x L(5) x %s" % THOROUGH_METRICS]
    return b


def plan(tier, seed):
    shards = [("wo", 3, 0, 13)]
    for a, b in E.chunks(4683, 300):
        shards.append(("wo", 4, a, b))
    for a, b in E.chunks(E.n_graphs(4, 3), 250):
        shards.append(("g", 4, 3, True, a, b))
    for a, b in E.chunks(E.n_graphs(5, 2), 64):
        shards.append(("g", 5, 2, False, a, b))
    # the same graphs addressed through a non-identity index array into a larger matrix
    for a, b in E.chunks(E.n_graphs(4, 3), 250):
        shards.append(("ge", 4, 3, True, a, b))
    for a, b in E.chunks(E.n_graphs(5, 2), 128):
        shards.append(("ge", 5, 2, False, a, b))
    # magnitude sweep: the same graphs with every weight multiplied by a tiny / huge factor
    # (only comparisons and maxima are involved, so nothing may change)
    for sc in SCALES:
        for a, b in E.chunks(E.n_graphs(4, 3), 250):
            shards.append(("gs", 4, 3, True, a, b, sc))
        for a, b in E.chunks(4683, 600):
            shards.append(("wos", 4, a, b, sc))
    metrics4 = QUICK_METRICS if tier == "quick" else THOROUGH_METRICS
    metrics5 = ["log_squared_euclidean"] if tier == "quick" else THOROUGH_METRICS
    for mt in metrics4:
        for a, b in E.chunks(E.n_sequences(9, 4), 500):
            shards.append(("feat", "2d", 4, mt, a, b))
    for mt in metrics5:
        for a, b in E.chunks(E.n_sequences(4, 5), 128):
            shards.append(("feat", "1d", 5, mt, a, b))
    # the classifier left by learn() (every random swap choice explored) is a trained forest too
    for pi in range(24):
        shards.append(("learn", pi))
    # memory layout of the caller's matrix: Fortran order, transposed view, strided view
    for lay in ("F", "T", "S"):
        for a, b in E.chunks(E.n_sequences(9, 3), 243):
            shards.append(("featlay", 3, lay, a, b))
        for a, b in E.chunks(E.n_sequences(9, 4), 729):
            shards.append(("featlay", 4, lay, a, b))
    for lay in ("R", "N"):      # read-only caller array; view with negative strides
        for a, b in E.chunks(E.n_sequences(9, 3), 243):
            shards.append(("featlay", 3, lay, a, b))
    # exception safety: the SAME object first runs a fit that is interrupted at every one of its
    # metric calls / matrix accesses, then the valid fit under test
    for a, b in E.chunks(E.n_graphs(4, 2), 8):
        shards.append(("crash", "pre", a, b))
    for a, b in E.chunks(E.n_sequences(4, 4), 32):
        shards.append(("crash", "features", a, b))
    # class identifiers that are not 0..K-1 (large, non-consecutive values)
    for a, b in E.chunks(E.n_graphs(4, 3), 250):
        shards.append(("glab", 4, 3, True, a, b))
    # duplicated identifiers in the index array (a bootstrap resample of the rows)
    shards.append(("gdup", 0, 27))
    for a, b in E.chunks(E.n_sequences(4, 4), 64):
        shards.append(("fdup", a, b))
    # eight samples with pairwise distinct distances (a Golomb ruler): every training order
    for a, b in E.chunks(40320, 2520):
        shards.append(("golomb", 8, a, b))
    # seven samples (a heap of three full levels): every sequence over {0..3}, two labelings
    for a, b in E.chunks(E.n_sequences(4, 7), 1024):
        shards.append(("feat7", 7, "euclidean", a, b))
    if tier == "thorough":
        for a, b in E.chunks(E.n_sequences(4, 8), 2048):
            shards.append(("feat7", 8, "euclidean", a, b))
        for a, b in E.chunks(E.n_graphs(5, 3), 400):
            shards.append(("g", 5, 3, True, a, b))
        for a, b in E.chunks(E.n_graphs(6, 2), 200):
            shards.append(("g", 6, 2, False, a, b))
    return shards


def warm():
    from mc.warm import warm_metrics
    warm_metrics()


_WO = {}


def weak_orders(n):
    if n not in _WO:
        _WO[n] = E.weak_orders(n * (n - 1) // 2)
    return _WO[n]


def programs(shard, seed):
    kind = shard[0]
    if kind == "wo":
        _, n, a, b = shard
        table = E.value_table(seed, n * (n - 1) // 2, zero=(seed % 2 == 1))
        labs = E.labelings(n)
        for ranks in weak_orders(n)[a:b]:
            W = E.matrix_from_ranks(n, ranks, table).tolist()
            for lab in labs:
                yield {"model": "SupervisedOPF", "mode": "pre", "W": W,
                       "labels": list(E.rename_classes(lab, seed))}
    elif kind == "g":
        _, n, m, zero, a, b = shard
        table = E.value_table(seed, m, zero=zero)
        labs = E.labelings(n)
        for gi in range(a, b):
            W = E.matrix_from_ranks(n, E.graph_ranks(n, m, gi), table).tolist()
            for lab in labs:
                yield {"model": "SupervisedOPF", "mode": "pre", "W": W,
                       "labels": list(E.rename_classes(lab, seed))}
    elif kind in ("gs", "wos"):
        if kind == "gs":
            _, n, m, zero, a, b, sc = shard
            table = [v * sc for v in E.value_table(seed, m, zero=zero)]
            ranks_iter = (E.graph_ranks(n, m, gi) for gi in range(a, b))
        else:
            _, n, a, b, sc = shard
            table = [v * sc for v in E.value_table(seed, n * (n - 1) // 2, zero=(seed % 2 == 1))]
            ranks_iter = iter(weak_orders(n)[a:b])
        labs = E.labelings(n)
        for ranks in ranks_iter:
            W = E.matrix_from_ranks(n, ranks, table).tolist()
            for lab in labs:
                yield {"model": "SupervisedOPF", "mode": "pre", "W": W,
                       "labels": list(E.rename_classes(lab, seed))}
    elif kind == "featlay":
        _, n, lay, a, b = shard
        pts = E.lattice("2d", seed)
        labs = E.labelings(n) if n == 3 else E.labelings(n, max_classes=2)
        for si in range(a, b):
            seq = E.sequence_at(len(pts), n, si)
            X = [list(pts[i]) for i in seq]
            for lab in labs:
                yield {"model": "SupervisedOPF", "mode": "features", "X": X, "metric": "euclidean",
                       "labels": list(E.rename_classes(lab, seed)), "layout": lay}
    elif kind == "crash":
        _, mode, a, b = shard
        if mode == "pre":
            table = E.value_table(seed, 2)
            prevW = E.matrix_from_ranks(4, (1, 0, 1, 0, 0, 1), table).tolist()
            for gi in range(a, b):
                W = E.matrix_from_ranks(4, E.graph_ranks(4, 2, gi), table).tolist()
                for lab in E.labelings(4, max_classes=2):
                    cur = {"model": "SupervisedOPF", "mode": "pre", "W": W, "labels": list(lab)}
                    prev = {"model": "SupervisedOPF", "mode": "pre", "W": prevW, "labels": [0, 1, 1, 0]}
                    yield from sup.crash_cases(prev, cur)
        else:
            pts = E.lattice("1d", seed)
            for si in range(a, b):
                seq = E.sequence_at(4, 4, si)
                X = [list(pts[i]) for i in seq]
                for lab in ([0, 1, 0, 1], [0, 0, 1, 1]):
                    cur = {"model": "SupervisedOPF", "mode": "features", "X": X, "metric": "euclidean",
                           "labels": lab}
                    prev = {"model": "SupervisedOPF", "mode": "features", "metric": "euclidean",
                            "X": [[3.0], [0.0], [2.0], [1.5]], "labels": [0, 1, 1, 0]}
                    yield from sup.crash_cases(prev, cur)
    elif kind == "glab":
        _, n, m, zero, a, b = shard
        table = E.value_table(seed, m, zero=zero)
        for gi in range(a, b):
            W = E.matrix_from_ranks(n, E.graph_ranks(n, m, gi), table).tolist()
            for lab in E.labelings(n):
                yield {"model": "SupervisedOPF", "mode": "pre", "W": W,
                       "labels": list(E.spread_classes(lab))}
    elif kind == "gdup":
        _, a, b = shard
        table = E.value_table(seed, 3, zero=True)
        for gi in range(a, b):
            W = E.matrix_from_ranks(3, E.graph_ranks(3, 3, gi), table).tolist()
            for I in ([0, 1, 0, 2], [0, 1, 2, 2], [1, 1, 0, 2], [2, 0, 1, 0]):
                for lab in E.labelings(4):
                    yield {"model": "SupervisedOPF", "mode": "pre", "W": W, "I_train": I,
                           "labels": list(E.rename_classes(lab, seed))}
    elif kind == "fdup":
        _, a, b = shard
        pts = E.lattice("1d", seed)
        for si in range(a, b):
            seq = E.sequence_at(4, 4, si)
            X = [list(pts[i]) for i in seq]
            for lab in E.labelings(4, max_classes=2):
                yield {"model": "SupervisedOPF", "mode": "features", "X": X, "metric": "euclidean",
                       "labels": list(lab), "I_train": [5, 7, 5, 9]}
    elif kind == "golomb":
        import itertools
        _, n, a, b = shard
        ruler = [0.0, 1.0, 4.0, 9.0, 15.0, 22.0, 32.0, 34.0][:n]
        sc = [1.0, 0.5, 2.0, 3.0][seed % 4] if seed else 1.0
        perms = itertools.islice(itertools.permutations(range(n)), a, b)
        for perm in perms:
            X = [[ruler[i] * sc] for i in perm]
            for lab in ([i % 2 for i in range(n)], [0 if ruler[i] < 12 else 1 for i in perm]):
                if len(set(lab)) < 2:
                    continue
                yield {"model": "SupervisedOPF", "mode": "features", "X": X, "metric": "euclidean",
                       "labels": list(lab)}
    elif kind == "feat7":
        _, n, metric, a, b = shard
        pts = E.lattice("1d", seed)
        for si in range(a, b):
            seq = E.sequence_at(len(pts), n, si)
            X = [list(pts[i]) for i in seq]
            for lab in ([i % 2 for i in range(n)], [0 if i < n // 2 else 1 for i in range(n)]):
                yield {"model": "SupervisedOPF", "mode": "features", "X": X, "metric": metric,
                       "labels": list(E.rename_classes(tuple(lab), seed))}
    elif kind == "ge":
        _, n, m, zero, a, b = shard
        table = E.value_table(seed, m, zero=zero)
        labs = E.labelings(n)
        I = embedding(n, seed)
        for gi in range(a, b):
            W = embed(E.matrix_from_ranks(n, E.graph_ranks(n, m, gi), table), I, table)
            for lab in labs:
                yield {"model": "SupervisedOPF", "mode": "pre", "W": W, "I_train": I,
                       "labels": list(E.rename_classes(lab, seed))}
    else:
        _, lk, n, metric, a, b = shard
        pts = E.lattice(lk, seed)
        labs = E.labelings(n)
        for si in range(a, b):
            seq = E.sequence_at(len(pts), n, si)
            X = [list(pts[i]) for i in seq]
            for lab in labs:
                yield {"model": "SupervisedOPF", "mode": "features", "X": X,
                       "metric": metric, "labels": list(E.rename_classes(lab, seed))}


def embedding(n, seed):
    """A non-identity injection of positions 0..n-1 into the rows of an (n+2)-row matrix."""
    I = list(range(n + 1, 1, -1))          # n+1, n, ..., 2  (rows 0 and 1 are decoys)
    if seed:
        import random
        I = random.Random(99 + seed).sample(range(n + 2), n)
        if I == list(range(n)):
            I.reverse()
    return I


def embed(W, I, table):
    """(n+2)x(n+2) matrix whose rows/columns I carry W; decoy rows carry weights that
    would change the forest if they were read (smaller than every real weight but one)."""
    import numpy as np
    n = len(I)
    big = np.full((n + 2, n + 2), float(table[0]) * 0.5 + 0.125)
    np.fill_diagonal(big, 0.0)
    for a in range(n):
        for b in range(n):
            big[I[a], I[b]] = W[a][b]
    return big.tolist()


def run_case(prog, res=None, model=None):
    """Execute one literal program on the real code; returns a violation dict
    or None."""
    try:
        m, Wd = sup.fit_program(prog, model=model)
        obs = sup.observe(m)
    except Horizon:
        raise
    except Exception as ex:
        return viol(prog, "fit raised %r" % (ex,), "fit raised")
    n = len(Wd)
    M = F.minimax_closure(Wd)

    def oracle(Wd_, S):
        return [0.0 if t in S else min(M[s][t] for s in S) for t in range(n)]

    prob, sym = sup.forest_problem(Wd, prog["labels"], len(prog["labels"]), obs, oracle)
    if prob:
        return viol(prog, prob, sym, obs)
    if res is not None:
        nodes = obs["nodes"]
        S = [i for i in range(n) if nodes[i]["status"] == 1]
        nontriv = False
        for t in range(n):
            if t in S:
                continue
            v = nodes[t]["cost"]
            if v < min(Wd[s][t] for s in S):
                nontriv = True
                break
            if len({prog["labels"][s] for s in S if M[s][t] == v}) > 1:
                nontriv = True
                break
        if nontriv:
            res.nontrivial += 1
        res.outcome((n, len(S), tuple(nd["pred"] for nd in nodes),
                     tuple(nd["plabel"] for nd in nodes)))
    return None


def learn_case(prog, judge=None):
    """prog: {"learn": cfg, "script": RNG answers}.  Runs the real learn() and applies the forest
    oracle (or `judge`) to the classifier it leaves, with distances taken between the samples its
    nodes hold."""
    import numpy as np
    from mc import seams
    from mc.props import c17
    from opfython.models import SupervisedOPF
    cfg = prog["learn"]
    ch = seams.Chooser(prog["script"], 0)
    Xt = np.array(cfg["Xt"], dtype=float).reshape(-1, 1)
    Yt = np.array(cfg["Yt"], dtype=int)
    Xv = np.array(cfg["Xv"], dtype=float).reshape(-1, 1)
    Yv = np.array(cfg["Yv"], dtype=int)
    o = SupervisedOPF("euclidean")
    with c17.own_rng(ch):
        try:
            o.learn(Xt, Yt, Xv, Yv, n_iterations=cfg["iters"])
        except Horizon:
            raise
        except Exception as ex:
            return ch, viol(prog, "learn raised %r" % (ex,), "learn raised")
    obs = sup.observe(o)
    feats = [nd.features.copy() for nd in o.subgraph.nodes]
    n = len(feats)
    Wd = [[float(o.distance_fn(feats[a].copy(), feats[b].copy())) if a != b else 0.0 for b in range(n)]
          for a in range(n)]
    labels = [nd["label"] for nd in obs["nodes"]]
    if judge is not None:
        return ch, judge(prog, obs, Wd, labels, o)
    M = F.minimax_closure(Wd)

    def oracle(_, S):
        return [0.0 if t in S else min(M[s][t] for s in S) for t in range(n)]

    prob, sym = sup.forest_problem(Wd, labels, n, obs, oracle)
    if prob:
        return ch, viol(prog, "classifier left by learn(): " + prob, "after learn: " + sym, obs)
    return ch, None


def viol(prog, prob, sym, obs=None):
    return {"check": "forest", "program": prog, "observed": obs if obs else prob,
            "allowed": "optimum-path forest of the flagged prototypes (minimax reference)",
            "explanation": prob, "fingerprint": "SupervisedOPF.fit: " + sym}


_PREV = {}


def _key(prog):
    return sup.cache_key(prog) if prog["model"] in ("SupervisedOPF", "SemiSupervisedOPF") else None


def run_learn(shard, seed, res, judge=None):
    from mc.explore import explore
    from mc.props import c17
    for cfg in c17.learn_configs(3, shard[1], seed):
        found = []

        def execute(ch):
            prog = {"learn": cfg, "script": list(ch.script)}
            with horizon(20.0):
                ch2, v = learn_case_with(ch, cfg, judge)
            res.transitions += 1
            if v:
                v["program"] = {"learn": cfg, "script": [c for _, c in ch.points]}
                found.append(v)
            return v

        out = explore(execute)
        res.evaluations += out["executions"]
        res.traces += out["executions"]
        res.states += 1
        res.nontrivial += out["executions"]
        for v in found[:1]:
            res.violations.append(v)
        if res.full:
            break
    res.sample({"learn": cfg, "script": "all RNG answer sequences"}, 1)
    return res


def learn_case_with(ch, cfg, judge=None):
    # learn_case builds its own chooser from a script; here the explorer's chooser is used directly
    from mc import seams
    orig = seams.Chooser
    try:
        seams.Chooser = lambda script, default=0: ch
        return learn_case({"learn": cfg, "script": []}, judge)
    finally:
        seams.Chooser = orig


def run(shard, seed):
    res = Result()
    if shard[0] == "learn":
        return run_learn(shard, seed, res)
    k = 0
    for prog in programs(shard, seed):
        try:
            with horizon(10.0):
                if "previous" in prog:
                    v = sup.replay_with_history(lambda p, r=None, model=None: run_case(p, res if p is not prog.get("previous") else None, model), prog)
                    res.transitions += 1
                else:
                    v = run_case(prog, res)
        except Horizon as hz:
            v = viol(prog, str(hz), "no termination")
        res.evaluations += 1
        res.states += 1
        res.traces += 1
        res.transitions += 1  # one fit
        if k == 0:
            res.sample(prog, 1)
        k += 1
        if v:
            prev = _PREV.get(_key(prog)) if _key(prog) is not None else None
            sup.with_history(v, prev)
            res.violations.append(v)
            if res.full:
                break
        _PREV[_key(prog)] = prog
    # start-state variation: a fresh object gives the same forest as a used one
    if not res.full:
        last = None
        for prog in programs(shard, seed):
            last = prog
            break
        if last is not None:
            hist = sup.construction_history()
            prev = _PREV.get(_key(last)) if _key(last) is not None else None
            v = fresh_vs_used(last)
            res.transitions += 2
            if v:
                v["program"] = dict(last, compare_fresh=True, constructed_before=hist)
                if prev is not None:
                    v["program"]["previous"] = prev
                res.violations.append(v)
    return res


def fresh_vs_used(prog):
    m1, _ = sup.fit_program(prog)
    m2, _ = sup.fit_program(prog, fresh=True)
    if sup.observe(m1) != sup.observe(m2):
        return viol(prog, "a re-used model object gives a different forest than a fresh one", "stale state")
    return None


def replay(case):
    if "learn" in case["program"]:
        return learn_case(case["program"])[1]
    p = case["program"]
    if p.get("compare_fresh"):
        cur = {k: v for k, v in p.items() if k not in ("compare_fresh", "constructed_before", "previous")}
        sup.rebuild_history(p.get("constructed_before") or [])
        if p.get("previous"):
            try:
                sup.fit_program({k: v for k, v in p["previous"].items() if k != "previous"})
            except Exception:
                pass
        v = fresh_vs_used(cur)
        if v:
            v["program"] = p
        return v
    return sup.replay_with_history(run_case, p)
