"""C19 - a saved and re-loaded model behaves identically to the original.
Explorer B (prefix replay): every enabled sequence of {save, load into a fresh
object, predict on original, predict on loaded, save the loaded object} up to
a depth bound, for every kind x metric x {features, pre-computed file}."""
import hashlib
import itertools
import os
import shutil
import subprocess
import sys
import tempfile

import numpy as np

from mc.oracles import axioms
from mc.runner import Result, horizon, Horizon, VERIF, scratch_dir

ID = "C19"
TITLE = "save/load round trip preserves state and predictions"
RULE = ("for every model kind (4) x every metric (47; quick: pre-computed mode for 8 of them) x "
        "{features, pre-computed distance file} x 2 tiny training sets: EVERY enabled operation "
        "sequence of length <= 3 (thorough 4) over {save, load into a freshly constructed model, "
        "predict(batch) on the original, predict(batch) on the loaded model, save the loaded model "
        "(chains)}; invariants after every operation: the original's complete state (nodes, "
        "subgraph and model attributes, 'relevant' flags included) is unchanged by save; the "
        "loaded object's state equals the original's at save time field by field; predictions of "
        "loaded and original agree on every query; thorough additionally loads each file in a "
        "separate interpreter. Non-trivial = the sequence contains a load")
ASSUMPTIONS = [
    "training sets of 5 probability-vector rows (in the domain of all 47 metrics); 3 queries",
    "state equality of distance_fn is behavioural (same values on the query grid), all other "
    "attributes are compared bit-for-bit",
]
KINDS = ["SupervisedOPF", "SemiSupervisedOPF", "KNNSupervisedOPF", "UnsupervisedOPF"]
DATASETS = [
    {"X": [[0.2, 0.8], [0.3, 0.7], [0.6, 0.4], [0.9, 0.1], [0.5, 0.5]], "Y": [0, 0, 1, 1, 0],
     "Q": [[0.25, 0.75], [0.7, 0.3], [0.5, 0.5]]},
    {"X": [[0.1, 0.2, 0.7], [0.1, 0.2, 0.7], [0.4, 0.4, 0.2], [0.3, 0.3, 0.4], [0.8, 0.1, 0.1]],
     "Y": [1, 0, 1, 0, 0], "Q": [[0.3, 0.3, 0.4], [0.2, 0.5, 0.3], [0.8, 0.1, 0.1]]},
]


def _twins():
    """24-dimensional samples in pairs whose members hold the same coordinates in another order (one per
    class), handed over in Fortran order; queries with all coordinates equal are then equidistant, in exact
    arithmetic, from both members of a pair: whatever rounding decides must decide the same way for the
    original (rows are strided views) and for the loaded copy (contiguous rows)."""
    rows, labels = [], []
    for i in range(6):
        base = [((i * 24 + f + 1) * 0.6180339887498949) % 1.0 + 0.05 * i for f in range(24)]
        twin = [base[(f * 5 + 3) % 24] for f in range(24)]
        rows += [base, twin]
        labels += [0, 1]
    qs = [[0.02 * t] * 24 for t in range(70)]
    return {"X": rows, "Y": labels, "Q": qs, "layout": "F"}


DATASETS.append(_twins())
N_MAIN = 2          # the sequence families run on the first two datasets; the third has its own shards
PRE_QUICK = ["log_squared_euclidean", "euclidean", "canberra", "kullback_leibler", "jaccard",
             "chord", "hamming", "gaussian", "jeffreys", "statistic"]
OPS = ["save", "load", "predict_orig", "predict_loaded", "save_loaded"]
# pre-computed mode only: the distance FILE is rewritten with other numbers after the model read it
# (a saved model must not depend on that file any more)
PRE_OPS = OPS + ["rewrite_distance_file"]


def bounds(tier):
    return {"kinds": KINDS, "metrics_feature_mode": 47,
            "metrics_precomputed_mode": 47 if tier == "thorough" else PRE_QUICK,
            "datasets": 2, "depth": 3 if tier == "quick" else 4,
            "deep_sequences": "4 kinds x default metric%s: every enabled sequence of length <= %d, all "
                              "saves going to the same path" % ((" + 2 metrics", 6) if tier == "thorough" else ("", 5)),
            "separate_interpreter": "all configs" if tier == "thorough" else "4 kinds x 2 metrics"}


def plan(tier, seed):
    shards = []
    depth = 3 if tier == "quick" else 4
    for mt in axioms.NAMES:
        for kind in KINDS:
            shards.append(("seq", kind, mt, "features", depth))
            if tier == "thorough" or mt in PRE_QUICK:
                shards.append(("seq", kind, mt, "pre", depth))
    for kind in KINDS:
        for mt in (axioms.NAMES if tier == "thorough" else ["log_squared_euclidean", "canberra"]):
            shards.append(("proc", kind, mt))
    # the receiver of load() was itself constructed with a (different, unrelated) distance file
    for kind in KINDS:
        for mt in PRE_QUICK[:4]:
            shards.append(("seq", kind, mt, "features", 3, "recv_pre"))
    for kind in KINDS:
        shards.append(("names", kind))
    for kind in KINDS:
        for mt in ("log_squared_euclidean", "squared_euclidean", "euclidean", "manhattan"):
            shards.append(("twins", kind, mt))
    # longer histories (save / mutate by predicting / save again to the same path / load ...)
    for kind in KINDS:
        for mt in (["log_squared_euclidean"] if tier == "quick" else ["log_squared_euclidean", "canberra", "euclidean"]):
            shards.append(("seq", kind, mt, "features", 5 if tier == "quick" else 6))
    return shards


def warm():
    from mc.warm import warm_metrics
    warm_metrics()


# --------------------------------------------------------------------------
def construct(kind, metric, pre_path=None):
    import opfython.models as M
    if kind == "KNNSupervisedOPF":
        return M.KNNSupervisedOPF(max_k=2, distance=metric, pre_computed_distance=pre_path)
    if kind == "UnsupervisedOPF":
        return M.UnsupervisedOPF(min_k=1, max_k=2, distance=metric, pre_computed_distance=pre_path)
    return getattr(M, kind)(distance=metric, pre_computed_distance=pre_path)


def fit_original(kind, metric, mode, ds, tmpdir, seed):
    import opfython.math.general as g
    X = np.array(ds["X"], dtype=float)
    if ds.get("layout") == "F":
        X = np.asfortranarray(X)
    Y = np.array(ds["Y"], dtype=int)
    n = len(X)
    pre_path = None
    if mode == "pre":
        pre_path = os.path.join(tmpdir, "pre.txt")
        full = np.vstack([X, np.array(ds["Q"], dtype=float)])
        if kind == "KNNSupervisedOPF":
            full = X  # the matrix must be n_nodes x n_nodes for this model
        g.pre_compute_distance(full, pre_path, metric)
    m = construct(kind, metric, pre_path)
    I = np.arange(n) if mode == "pre" else None
    if kind == "SemiSupervisedOPF":
        if mode == "pre":
            m.fit(X[:3], Y[:3], X[3:], I_train=np.arange(3))
        else:
            m.fit(X[:3], Y[:3], X[3:])
    elif kind == "KNNSupervisedOPF":
        if mode == "pre":
            m.fit(X, Y, X[:3], Y[:3], I_train=I, I_val=np.arange(3))
        else:
            m.fit(X, Y, X[:3].copy(), Y[:3].copy())
    elif kind == "UnsupervisedOPF":
        m.fit(X, Y, I_train=I)
        m.propagate_labels()
    else:
        m.fit(X, Y, I_train=I)
    return m


def batch_for(kind, mode, ds):
    Q = np.array(ds["Q"], dtype=float)
    if mode == "pre":
        if kind == "KNNSupervisedOPF":
            return np.array(ds["X"], dtype=float)[:3], np.arange(3)
        n = len(ds["X"])
        return Q, np.arange(n, n + len(Q))
    return Q, None


def predict(m, kind, mode, ds):
    Xb, Ib = batch_for(kind, mode, ds)
    out = m.predict(Xb.copy(), Ib)
    if kind == "UnsupervisedOPF":
        return ([int(a) for a in out[0]], [int(a) for a in out[1]])
    return [int(a) for a in out]


def canon(v):
    if isinstance(v, np.ndarray):
        return ("nd", str(v.dtype), v.shape, v.tobytes())
    if isinstance(v, (list, tuple)):
        return tuple(canon(x) for x in v)
    if isinstance(v, dict):
        return tuple(sorted((k, canon(x)) for k, x in v.items()))
    if isinstance(v, (np.floating, float)):
        return ("f", float(v).hex() if v == v else "nan")
    if isinstance(v, (np.integer, int, bool, np.bool_)):
        return ("i", int(v))
    if v is None or isinstance(v, str):
        return v
    if callable(v):
        return ("callable", getattr(v, "__name__", None) or getattr(getattr(v, "py_func", None), "__name__", "?"))
    if hasattr(v, "__dict__"):
        return (type(v).__name__, canon(vars(v)))
    return repr(v)


def full_state(m):
    """Field-by-field canonical state of a model (everything in __dict__,
    recursively through subgraph and nodes)."""
    return canon(vars(m))


def diff_fields(a, b, path="model"):
    if a == b:
        return None
    if isinstance(a, tuple) and isinstance(b, tuple) and len(a) == len(b):
        for i, (x, y) in enumerate(zip(a, b)):
            if x != y:
                key = x[0] if isinstance(x, tuple) and len(x) == 2 and isinstance(x[0], str) else i
                d = diff_fields(x, y, "%s.%s" % (path, key))
                return d or "%s.%s" % (path, key)
    return path


def fn_behaviour(m, ds):
    rows = [np.array(r, dtype=float) for r in ds["X"][:3] + ds["Q"]]
    return tuple(float(m.distance_fn(a.copy(), b.copy())).hex() for a in rows for b in rows)


def run_sequence(kind, metric, mode, di, seq, seed, res=None, receiver=None):
    ds = DATASETS[di]
    tmpdir = tempfile.mkdtemp(prefix="c19-", dir=scratch_dir())
    try:
        try:
            orig = fit_original(kind, metric, mode, ds, tmpdir, seed)
        except Horizon:
            raise
        except Exception as ex:
            return "fit raised %r" % (ex,), "fit raised %s" % type(ex).__name__
        path = None
        saved_state = None
        saved_beh = None
        loaded = None
        nfile = 0
        for si, op in enumerate(seq):
            try:
                if op == "save":
                    before = full_state(orig)
                    nfile += 1
                    path = os.path.join(tmpdir, "model.pkl")   # always the same path: later saves overwrite
                    orig.save(path)
                    if full_state(orig) != before:
                        return ("saving altered the original (%s)" % diff_fields(before, full_state(orig)),
                                "save alters the original")
                    saved_state, saved_beh = before, fn_behaviour(orig, ds)
                elif op == "load":
                    other_metric = "log_squared_euclidean" if metric != "log_squared_euclidean" else "euclidean"
                    if receiver == "recv_pre":
                        # a receiver that was configured with pre-computed distances of its own
                        of = os.path.join(tmpdir, "other.txt")
                        k = len(ds["X"]) + len(ds["Q"])
                        np.savetxt(of, np.array([[abs(i - j) * 7.5 + (i != j) for j in range(k)] for i in range(k)]))
                        loaded = construct(kind, other_metric, of)
                    else:
                        loaded = construct(kind, other_metric)
                    loaded.load(path)
                    st = full_state(loaded)
                    if st != saved_state:
                        return ("the loaded object differs from the saved original in %s"
                                % diff_fields(saved_state, st), "loaded state differs")
                    if fn_behaviour(loaded, ds) != saved_beh:
                        return "the loaded object's metric returns different values", "loaded metric differs"
                elif op == "predict_orig":
                    predict(orig, kind, mode, ds)
                elif op == "predict_loaded":
                    a = predict(loaded, kind, mode, ds)
                    # compare with a pristine copy of the original predicting the same batch
                    ref = fit_original(kind, metric, mode, ds, tmpdir, seed)
                    b = predict(ref, kind, mode, ds)
                    if a != b:
                        return ("the loaded model predicts %r, the original %r" % (a, b),
                                "loaded predictions differ")
                elif op == "rewrite_distance_file":
                    pf = os.path.join(tmpdir, "pre.txt")
                    if os.path.exists(pf):
                        M = np.loadtxt(pf, ndmin=2)
                        np.savetxt(pf, M * 3.0 + 1.0)
                elif op == "save_loaded":
                    before = full_state(loaded)
                    nfile += 1
                    path = os.path.join(tmpdir, "model.pkl")
                    loaded.save(path)
                    if full_state(loaded) != before:
                        return "saving altered the (loaded) model", "save alters the original"
                    saved_state, saved_beh = before, fn_behaviour(loaded, ds)
            except Horizon:
                raise
            except Exception as ex:
                return "%s (step %d of %s) raised %r" % (op, si, seq, ex), "%s raised %s" % (op, type(ex).__name__)
            if res is not None:
                res.transitions += 1
        return None, None
    finally:
        shutil.rmtree(tmpdir, ignore_errors=True)


def sequences(depth, ops=None):
    ops = ops or OPS
    out = []

    def rec(seq, has_file, has_loaded):
        if seq:
            out.append(list(seq))
        if len(seq) == depth:
            return
        for op in ops:
            if op == "load" and not has_file:
                continue
            if op in ("predict_loaded", "save_loaded") and not has_loaded:
                continue
            rec(seq + [op], has_file or op in ("save", "save_loaded"), has_loaded or op == "load")

    rec([], False, False)
    return out


CHILD = r'''
import sys, json, logging, warnings
sys.path.insert(0, sys.argv[1]); sys.path.insert(0, sys.argv[2])
logging.disable(logging.CRITICAL); warnings.simplefilter("ignore")
import numpy as np
from mc.props import c19
kind, mode, di, path = sys.argv[3], sys.argv[4], int(sys.argv[5]), sys.argv[6]
m = c19.construct(kind, "euclidean")
m.load(path)
print(json.dumps(c19.predict(m, kind, mode, c19.DATASETS[di])))
'''


def run_proc(kind, metric, seed, res):
    """Load in a separate interpreter; predictions must equal the original's."""
    repo = sys.path[0]
    for di, ds in enumerate(DATASETS):
        tmpdir = tempfile.mkdtemp(prefix="c19-", dir=scratch_dir())
        try:
            orig = fit_original(kind, metric, "features", ds, tmpdir, seed)
            path = os.path.join(tmpdir, "m.pkl")
            orig.save(path)
            want = predict(orig, kind, "features", ds)
            env = dict(os.environ)
            r = subprocess.run([sys.executable, "-B", "-c", CHILD, repo, VERIF, kind, "features", str(di), path],
                               capture_output=True, text=True, env=env, timeout=300)
            res.transitions += 3
            res.evaluations += 1
            res.traces += 1
            res.nontrivial += 1
            res.states += 1
            import json
            try:
                got = json.loads(r.stdout.strip().splitlines()[-1])
            except Exception:
                got = "child failed: %s" % (r.stderr.strip()[-400:],)
            w = [list(x) for x in want] if isinstance(want, tuple) else want
            if got != w:
                res.violations.append(viol({"kind": kind, "metric": metric, "mode": "features",
                                            "dataset": di, "seq": ["save", "load-in-new-interpreter"],
                                            "proc": True},
                                           "a separate interpreter loading the file predicts %r, the "
                                           "original %r" % (got, w), "loaded predictions differ (new interpreter)"))
        finally:
            shutil.rmtree(tmpdir, ignore_errors=True)


def names_case(kind, seed):
    """Two different models saved under sibling file names that contain dots and do not end in
    .pkl (also inside a directory whose name contains a dot); each file must give back its own model."""
    ds = DATASETS[0]
    tmpdir = tempfile.mkdtemp(prefix="c19-", dir=scratch_dir())
    try:
        a = fit_original(kind, "manhattan", "features", ds, tmpdir, seed)
        b = fit_original(kind, "chebyshev", "features", DATASETS[1], tmpdir, seed)
        sub = os.path.join(tmpdir, "run.1")
        os.makedirs(sub, exist_ok=True)
        for pa, pb in ((os.path.join(tmpdir, "blobs.first.opf"), os.path.join(tmpdir, "blobs.second.opf")),
                       (os.path.join(sub, "model"), os.path.join(tmpdir, "run.2-model"))):
            sa, sb = full_state(a), full_state(b)
            a.save(pa)
            b.save(pb)
            for path, want, name in ((pa, sa, "first"), (pb, sb, "second")):
                l = construct(kind, "euclidean")
                l.load(path)
                if full_state(l) != want:
                    return ("two models were saved as %s and %s; loading the %s file gives back a model that "
                            "differs from the one saved there (%s)" % (os.path.basename(pa), os.path.basename(pb),
                                                                       name, diff_fields(want, full_state(l))),
                            "file name handling: a file gives back another model")
        return None, None
    except Horizon:
        raise
    except Exception as ex:
        return "save/load with dotted file names raised %r" % (ex,), "dotted file names raised %s" % type(ex).__name__
    finally:
        shutil.rmtree(tmpdir, ignore_errors=True)


def viol(prog, prob, sym):
    return {"check": "save-load", "program": prog, "observed": prob,
            "allowed": "identical state and predictions", "explanation": prob,
            "fingerprint": "OPF.save/load [%s]: %s" % (prog["kind"], sym)}


def run(shard, seed):
    res = Result()
    if shard[0] == "names":
        p, sym = names_case(shard[1], seed)
        res.evaluations += 1
        res.traces += 1
        res.states += 1
        res.nontrivial += 1
        res.transitions += 8
        if p:
            res.violations.append(viol({"kind": shard[1], "names": True, "seed": seed}, p, sym))
        res.outcome(shard)
        res.sample({"kind": shard[1], "files": ["blobs.first.opf", "blobs.second.opf", "run.1/model", "run.2-model"]}, 1)
        return res
    if shard[0] == "proc":
        run_proc(shard[1], shard[2], seed, res)
        res.outcome(shard)
        res.sample({"kind": shard[1], "metric": shard[2], "seq": ["save", "load-in-new-interpreter", "predict"]}, 1)
        return res
    if shard[0] == "twins":
        _, kind, metric = shard
        di = len(DATASETS) - 1
        for seq in (["save", "load", "predict_loaded"], ["predict_orig", "save", "load", "predict_loaded"]):
            try:
                with horizon(120.0):
                    p, sym = run_sequence(kind, metric, "features", di, seq, seed, res)
            except Horizon as hz:
                p, sym = str(hz), "no termination"
            res.evaluations += 1
            res.traces += 1
            res.states += 1
            res.nontrivial += 1
            if p:
                res.violations.append(viol({"kind": kind, "metric": metric, "mode": "features",
                                            "dataset": di, "seq": seq, "seed": seed, "receiver": None}, p, sym))
                break
        res.outcome(shard)
        res.sample({"kind": kind, "metric": metric, "dataset": "24-d permutation twins, Fortran order",
                    "seq": ["save", "load", "predict_loaded"]}, 1)
        return res
    _, kind, metric, mode, depth = shard[:5]
    receiver = shard[5] if len(shard) > 5 else None
    seqs = sequences(depth, PRE_OPS if mode == "pre" else OPS)
    if receiver:
        seqs = [q for q in seqs if "load" in q]
    for di in range(N_MAIN):
        for seq in seqs:
            try:
                with horizon(60.0):
                    p, sym = run_sequence(kind, metric, mode, di, seq, seed, res, receiver)
            except Horizon as hz:
                p, sym = str(hz), "no termination"
            res.evaluations += 1
            res.traces += 1
            res.states += 1
            if "load" in seq:
                res.nontrivial += 1
            if p:
                res.violations.append(viol({"kind": kind, "metric": metric, "mode": mode,
                                            "dataset": di, "seq": seq, "seed": seed, "receiver": receiver}, p, sym))
                if res.full:
                    return res
                break
    res.outcome((kind, metric, mode))
    res.sample({"kind": kind, "metric": metric, "mode": mode, "seq": seqs[-1]}, 1)
    return res


def replay(case):
    p = case["program"]
    if p.get("names"):
        prob, sym = names_case(p["kind"], p.get("seed", 0))
        return viol(p, prob, sym) if prob else None
    if p.get("proc"):
        r = Result()
        run_proc(p["kind"], p["metric"], 0, r)
        return r.violations[0] if r.violations else None
    prob, sym = run_sequence(p["kind"], p["metric"], p["mode"], p["dataset"], p["seq"], p.get("seed", 0),
                             receiver=p.get("receiver"))
    if prob:
        return viol(p, prob, sym)
    return None
