"""C04 - training samples receive their own labels (zero resubstitution
error).  Explorer E: all strict edge orders (tie-free graphs) and all
arrangements of a generic point set under every dissimilarity metric for
SupervisedOPF; all lattice data (heavy ties) for KNNSupervisedOPF."""
import itertools

import numpy as np

from mc import enum as E
from mc import sup, knn
from mc.oracles import axioms
from mc.props import c01
from mc.runner import Result, horizon, Horizon

ID = "C04"
TITLE = "zero resubstitution error"
RULE = ("SupervisedOPF: every strict ordering of the edge weights (n=3,4, also with weight tables that are "
        "nearly equal (gaps 1e-9), huge (1e39) or tiny (1e-46), and with point sets whose distances are "
        "nearly equal / huge / tiny under euclidean, squared_euclidean, manhattan; thorough: all 10! for "
        "n=5 with the two-class labelings) x every labeling, as a pre-computed matrix, and every "
        "arrangement (ordered subset) of a generic positive point set whose pairwise distances "
        "are distinct under the metric being run, for each of the 40 symmetric non-negative "
        "zero-self metrics (tied sets are counted and skipped); checked: assigned label == true "
        "label for every training sample and predict(copy of X_train) == Y_train. "
        "KNNSupervisedOPF: every point sequence over the lattice {0..3} (duplicates, ties) x "
        "every labeling x validation sets x max_k in 1..n-1; checked: assigned label == true "
        "label. Non-trivial = at least one sample is not a prototype (supervised) / max_k >= 2 "
        "or duplicate points present (KNN)")
ASSUMPTIONS = [
    "n <= 4 (quick) / 5 (thorough) training samples",
    "KNN validation sets have labels whose maximum is the training maximum (the accuracy "
    "routine sizes its tables from the validation labels)",
]

GENERIC = [(1.0, 2.0), (2.0, 5.5), (4.0, 3.25), (7.0, 8.5), (9.5, 1.25), (6.0, 11.0)]


def generic_points(seed):
    if not seed:
        return GENERIC
    import random
    rnd = random.Random(31337 + seed)
    return [(round(rnd.uniform(0.5, 12.0), 3), round(rnd.uniform(0.5, 12.0), 3)) for _ in range(6)]


def bounds(tier):
    return {"supervised_pre": ["strict orders n=3 (6), n=4 (720) x L(n)"] +
            (["strict orders n=5 (10!) x 15 two-class labelings"] if tier == "thorough" else
             ["strict orders n=5: the 2 x 5040 orders with fixed first three edges... (see thorough)"][:0]),
            "supervised_features": "arrangements of size 3,4%s of 6 generic points x L(n) x 40 metrics"
            % (",5" if tier == "thorough" else ""),
            "knn": "P(3,{0..3}), P(4,{0..3}) x L(n) x (train-as-validation + point pairs) x max_k 1..n-1"
            + ("; P(5,{0..3}) x L(5) x 4 validation sets" if tier == "thorough"
               else "; P(5,{0..3}) x two-class labelings x train-as-validation")}


def plan(tier, seed):
    shards = [("strict", 3, 0, 6)]
    for a, b in E.chunks(720, 90):
        shards.append(("strict", 4, a, b))
    # tie-free weight tables in unusual numerical regimes (distinct as doubles, but nearly equal /
    # beyond the single-precision range)
    for tab in ("near", "huge", "tiny"):
        for a, b in E.chunks(720, 180):
            shards.append(("strictx", 4, tab, a, b))
    # class identifiers that are not 0..K-1
    for a, b in E.chunks(720, 180):
        shards.append(("strictlab", 4, a, b))
    shards.append(("knnlab", 3, 0, 64, "light"))
    for regime in ("near", "huge", "tiny"):
        for mt in ("euclidean", "squared_euclidean", "manhattan"):
            shards.append(("featx", mt, 4, regime))
    for mt in axioms.dissimilarity_metrics():
        shards.append(("feat", mt, 3))
        shards.append(("feat", mt, 4))
        if tier == "thorough" or mt in ("euclidean", "manhattan"):
            shards.append(("feat", mt, 5))
    # the classifier left by learn() (every RNG answer sequence) is a trained classifier too
    shards += [("learn", pi) for pi in range(24)]
    # one long tie-free chain: a forest whose optimum paths are more than a thousand arcs deep
    shards.append(("chain", 1100, 2))
    shards.append(("chain", 40, 20))
    shards.append(("knn", 3, 0, 64, "full"))
    for a, b in E.chunks(256, 16):
        shards.append(("knn", 4, a, b, "full"))
    for a, b in E.chunks(1024, 32):
        shards.append(("knn", 5, a, b, "thorough" if tier == "thorough" else "light"))
    if tier == "thorough":
        nperm = 3628800
        for a, b in E.chunks(nperm, 20000):
            shards.append(("strict5", a, b))
    return shards


warm = c01.warm


def nth_permutation(items, index):
    items = list(items)
    out = []
    import math
    n = len(items)
    for i in range(n, 0, -1):
        f = math.factorial(i - 1)
        q, index = divmod(index, f)
        out.append(items.pop(q))
    return out


def val_sets(n, K, mode, pts1d, X, lab):
    """validation sets for the KNN part: labels always contain K-1."""
    out = [{"X": [list(x) for x in X], "labels": list(lab)}]
    if mode == "light":
        return out
    pairs = list(itertools.combinations_with_replacement(range(len(pts1d)), 2))
    if mode == "thorough":
        pairs = [(0, 3), (1, 2), (2, 2)]
    for a, b in pairs:
        for la in range(K):
            for lb in range(K):
                if max(la, lb) != K - 1:
                    continue
                out.append({"X": [list(pts1d[a]), list(pts1d[b])], "labels": [la, lb]})
    return out


def programs(shard, seed):
    kind = shard[0]
    if kind == "strict":
        _, n, a, b = shard
        ne = n * (n - 1) // 2
        table = E.value_table(seed, ne)
        for ranks in list(itertools.permutations(range(ne)))[a:b]:
            W = E.matrix_from_ranks(n, ranks, table).tolist()
            for lab in E.labelings(n):
                yield {"model": "SupervisedOPF", "mode": "pre", "W": W,
                       "labels": list(E.rename_classes(lab, seed))}
    elif kind == "strictlab":
        _, n, a, b = shard
        ne = n * (n - 1) // 2
        table = E.value_table(seed, ne)
        for ranks in list(itertools.permutations(range(ne)))[a:b]:
            W = E.matrix_from_ranks(n, ranks, table).tolist()
            for lab in E.labelings(n):
                yield {"model": "SupervisedOPF", "mode": "pre", "W": W, "labels": list(E.spread_classes(lab))}
    elif kind == "knnlab":
        _, n, a, b, mode = shard
        pts = E.lattice("1d", seed)
        for si in range(a, b):
            seq = E.sequence_at(len(pts), n, si)
            X = [list(pts[i]) for i in seq]
            for lab in E.labelings(n):
                for shift in ((1, 2, 3), (0, 2, 3), (5, 7, 300)):
                    lab2 = [shift[v] for v in lab]
                    for max_k in range(1, n):
                        yield {"model": "KNNSupervisedOPF", "mode": "features", "X": X, "metric": "euclidean",
                               "labels": lab2, "val": {"X": X, "labels": lab2}, "max_k": max_k}
    elif kind == "strictx":
        _, n, tab, a, b = shard
        ne = n * (n - 1) // 2
        table = {"near": [1.0 + i * 1e-9 for i in range(ne)],
                 "huge": [(i + 1) * 1e39 for i in range(ne)],
                 "tiny": [(i + 1) * 1e-46 for i in range(ne)]}[tab]
        for ranks in list(itertools.permutations(range(ne)))[a:b]:
            W = E.matrix_from_ranks(n, ranks, table).tolist()
            for lab in E.labelings(n):
                yield {"model": "SupervisedOPF", "mode": "pre", "W": W,
                       "labels": list(E.rename_classes(lab, seed))}
    elif kind == "strict5":
        _, a, b = shard
        table = E.value_table(seed, 10)
        labs = E.labelings(5, max_classes=2)
        for pi in range(a, b):
            ranks = nth_permutation(range(10), pi)
            W = E.matrix_from_ranks(5, ranks, table).tolist()
            for lab in labs:
                yield {"model": "SupervisedOPF", "mode": "pre", "W": W,
                       "labels": list(E.rename_classes(lab, seed))}
    elif kind == "chain":
        _, n, head = shard
        for mode in ("features", "pre"):
            yield {"model": "SupervisedOPF", "mode": mode, "metric": "euclidean", "chain": [n, head]}
    elif kind == "featx":
        _, metric, n, regime = shard
        if regime == "near":
            # all pairwise distances distinct as doubles, but several agree to ~1e-9 relative
            pts = [(0.0,), (1.0,), (2.0 + 1e-9,), (3.0 + 3e-9,), (4.0 + 6e-9,)]
        else:
            sq = metric == "squared_euclidean"
            sc = {"huge": 1e20 if sq else 1e39, "tiny": 1e-25 if sq else 1e-50}[regime]
            pts = [(x * sc, y * sc) for x, y in generic_points(seed)[:5]]
        for arr in itertools.permutations(range(len(pts)), n):
            X = [list(pts[i]) for i in arr]
            for lab in E.labelings(n):
                yield {"model": "SupervisedOPF", "mode": "features", "X": X, "metric": metric,
                       "labels": list(E.rename_classes(lab, seed))}
    elif kind == "feat":
        _, metric, n = shard
        pts = generic_points(seed)
        for arr in itertools.permutations(range(len(pts)), n):
            X = [list(pts[i]) for i in arr]
            for lab in E.labelings(n):
                yield {"model": "SupervisedOPF", "mode": "features", "X": X, "metric": metric,
                       "labels": list(E.rename_classes(lab, seed))}
    else:
        _, n, a, b, mode = shard
        pts = E.lattice("1d", seed)
        labs = E.labelings(n) if mode != "light" else E.labelings(n, max_classes=2)
        for si in range(a, b):
            seq = E.sequence_at(len(pts), n, si)
            X = [list(pts[i]) for i in seq]
            for lab in labs:
                lab = E.rename_classes(lab, seed)
                K = max(lab) + 1
                for v in val_sets(n, K, mode, pts, X, lab):
                    for max_k in range(1, n):
                        yield {"model": "KNNSupervisedOPF", "mode": "features", "X": X,
                               "metric": "euclidean", "labels": list(lab), "val": v,
                               "max_k": max_k}


def expand_chain(prog):
    """1-D points with strictly growing gaps (all pairwise distances distinct: x_i - x_j =
    (i-j)(1+(i+j)e) determines the pair); the first `head` points are class 0, the others class 1, so the
    only prototypes are the two points at the class boundary and every other point hangs on a path that
    runs through all points between it and the boundary."""
    n, head = prog["chain"]
    e = 1e-6
    xs = [i * (1.0 + i * e) for i in range(n)]
    out = dict(prog)
    out["labels"] = [0 if i < head else 1 for i in range(n)]
    if prog["mode"] == "features":
        out["X"] = [[x] for x in xs]
    else:
        out["W"] = [[abs(a - b) for b in xs] for a in xs]
    return out


def run_case(prog, res=None, model=None):
    if "chain" in prog:
        full = expand_chain(prog)
        full.pop("chain")
        v = run_case(full, res, model)
        if v:
            v["program"] = prog        # the generator, not the expanded arrays
        if res is not None and not v:
            res.nontrivial += 1
        return v
    lab = list(prog["labels"])
    n = len(lab)
    if prog["model"] == "KNNSupervisedOPF":
        try:
            m = knn.fit_program(prog)
        except Horizon:
            raise
        except Exception as ex:
            return viol(prog, "fit raised %r" % (ex,), "fit raised %s" % type(ex).__name__)
        got = [int(nd.predicted_label) for nd in m.subgraph.nodes]
        if res is not None:
            res.transitions += 1
            if prog["max_k"] >= 2 or len({tuple(x) for x in prog["X"]}) < n:
                res.nontrivial += 1
            res.outcome(("knn", n, int(m.subgraph.best_k), tuple(got)))
        if got != lab:
            return viol(prog, "after KNN-supervised training the assigned labels are %s, the true "
                        "labels are %s (best_k=%d)" % (got, lab, m.subgraph.best_k),
                        "assigned label differs from true label")
        return None
    # supervised
    try:
        m, Wd = sup.fit_program(prog, model=model)
    except Horizon:
        raise
    except Exception as ex:
        return viol(prog, "fit raised %r" % (ex,), "fit raised %s" % type(ex).__name__)
    ws = [Wd[a][b] for a, b in E.edges(n)]
    if prog["mode"] == "features":
        asym = any(Wd[a][b] != Wd[b][a] for a, b in E.edges(n))
        if len(set(ws)) != len(ws) or min(ws) <= 0 or asym or any(w != w for w in ws):
            if res is not None:
                res.skip("tied / zero / asymmetric-in-rounding distances under this metric")
            return None
    got = [int(nd.predicted_label) for nd in m.subgraph.nodes]
    if res is not None:
        res.transitions += 2
        if any(nd.status != 1 for nd in m.subgraph.nodes):
            res.nontrivial += 1
        res.outcome(("sup", n, tuple(int(nd.status) for nd in m.subgraph.nodes)))
    if got != lab:
        return viol(prog, "after training the assigned labels are %s, the true labels are %s"
                    % (got, lab), "assigned label differs from true label")
    try:
        if prog["mode"] == "pre":
            preds = m.predict(np.zeros((n, 1)), I_val=np.arange(n))
        else:
            preds = m.predict(np.array(prog["X"], dtype=float))
    except Horizon:
        raise
    except Exception as ex:
        return viol(prog, "predict raised %r" % (ex,), "predict raised %s" % type(ex).__name__)
    preds = [int(p) for p in preds]
    if preds != lab:
        return viol(prog, "predicting the training set returned %s, the training labels are %s"
                    % (preds, lab), "resubstitution error")
    return None


def judge_learned(prog, obs, Wd, labels, model):
    """Classifier left by learn(): when the samples its nodes hold are at pairwise distinct positive
    distances, every node carries its own label and predicting those samples returns the labels."""
    n = len(labels)
    ws = [Wd[a][b] for a, b in E.edges(n)]
    if len(set(ws)) != len(ws) or min(ws) <= 0 or len(set(labels)) < 2:
        return None
    prog = dict(prog, model="SupervisedOPF")
    got = [nd["plabel"] for nd in obs["nodes"]]
    if got != list(labels):
        return viol(prog, "classifier left by learn(): the assigned labels are %s, the labels of the samples "
                    "it holds are %s" % (got, list(labels)), "assigned label differs from true label (after learn)")
    X = np.array([nd.features.copy() for nd in model.subgraph.nodes], dtype=float)
    try:
        preds = [int(p) for p in model.predict(X)]
    except Horizon:
        raise
    except Exception as ex:
        return viol(prog, "predict raised %r" % (ex,), "predict raised %s" % type(ex).__name__)
    if preds != list(labels):
        return viol(prog, "classifier left by learn(): predicting the samples it holds returned %s, their labels "
                    "are %s" % (preds, list(labels)), "resubstitution error (after learn)")
    return None


def viol(prog, prob, sym):
    mt = prog.get("metric", "pre")
    site = prog["model"] + ("[chord]" if mt == "chord" else "")
    return {"check": "resubstitution", "program": prog, "observed": prob,
            "allowed": "every training sample keeps its own label",
            "explanation": prob, "fingerprint": "%s: %s" % (site, sym)}


_PREV = {}


def _key(prog):
    return sup.cache_key(prog) if prog["model"] in ("SupervisedOPF", "SemiSupervisedOPF") else None


def run(shard, seed):
    res = Result()
    if shard[0] == "learn":
        return c01.run_learn(shard, seed, res, judge_learned)
    k = 0
    for prog in programs(shard, seed):
        try:
            with horizon(240.0 if "chain" in prog else 10.0):
                v = run_case(prog, res)
        except Horizon as hz:
            v = viol(prog, str(hz), "no termination")
        res.evaluations += 1
        res.states += 1
        res.traces += 1
        if k == 0:
            res.sample(prog, 1)
        k += 1
        if v:
            prev = _PREV.get(_key(prog)) if _key(prog) is not None else None
            sup.with_history(v, prev)
            res.violations.append(v)
            if res.full:
                break
        _PREV[_key(prog)] = prog
    return res


def replay(case):
    if "learn" in case["program"]:
        return c01.learn_case(case["program"], judge_learned)[1]
    return sup.replay_with_history(run_case, case["program"])
