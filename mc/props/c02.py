"""C02 - prototypes are exactly the class-boundary endpoints of a minimum
spanning tree.  Explorer E; oracle = family of boundary-endpoint sets over ALL
minimum spanning trees (all n^(n-2) spanning trees enumerated)."""
import functools

from mc import enum as E
from mc import sup
from mc.oracles import forest as F
from mc.props import c01
from mc.runner import Result, horizon, Horizon

ID = "C02"
TITLE = "prototypes = class-boundary endpoints of some MST"
RULE = ("same (graph, labeling) families as C01 (all weak edge orderings for n<=4, all weight "
        "assignments over 2-3 values for n=5(6), lattice point sequences under named metrics) "
        "for SupervisedOPF, plus SemiSupervisedOPF with 1-2 unlabeled samples; the flagged "
        "prototype set must be a member of {inter-class arc endpoints of T : T any minimum "
        "spanning tree of the labeled graph}; non-trivial = the graph has more than one "
        "minimum spanning tree (tie handling matters) or the boundary set is a proper subset "
        "of the samples; includes C01's further families (index arrays, magnitudes, large class ids, seven "
        "samples, memory layouts, fits after an interrupted fit)")
ASSUMPTIONS = [
    "n <= 5 (quick) / 6 (thorough) labeled samples",
    "tree weights are compared with relative tolerance 1e-12 (sums of <= 5 weights)",
]


def bounds(tier):
    b = c01.bounds(tier)
    b["semi_supervised"] = ["G(3+1,3,zero) x L(3)", "G(3+2,2) x L(3)", "G(4+1,2) x L(4)"]
    return b


def plan(tier, seed):
    shards = [("sup",) + s for s in c01.plan(tier, seed) if s[0] != "learn"]
    # the classifier left by learn() (every RNG answer sequence): its prototypes against the samples
    # its nodes hold
    shards += [("learn", pi) for pi in range(24)]
    # "all symmetric weight assignments": tables holding negative weights, and integer matrices whose
    # weights differ only beyond the 53rd bit (exactly representable as int64, not as float64)
    for a, b in E.chunks(E.n_graphs(4, 3), 250):
        shards.append(("neg", 4, 3, a, b))
    for a, b in E.chunks(E.n_graphs(5, 2), 256):
        shards.append(("neg", 5, 2, a, b))
    for a, b in E.chunks(E.n_graphs(4, 3), 250):
        shards.append(("bigint", 4, 3, a, b))
    # two dense groups (4..14 samples each) that are nearer to each other than a stray sample is to
    # either: the inter-group arc of the (unique) minimum spanning tree is among nobody's nearest arcs
    shards.append(("groups", 4, 10))
    shards.append(("groups", 10, 15))
    for a, b in E.chunks(E.n_graphs(4, 3), 250):
        shards.append(("semi", 3, 1, 3, True, a, b))
    for a, b in E.chunks(E.n_graphs(5, 2), 128):
        shards.append(("semi", 3, 2, 2, False, a, b))
        shards.append(("semi", 4, 1, 2, False, a, b))
    return shards


warm = c01.warm


def programs(shard, seed):
    if shard[0] == "sup":
        yield from c01.programs(shard[1:], seed)
        return
    if shard[0] == "groups":
        sc = [1.0, 0.5, 2.0, 3.0][seed % 4] if seed else 1.0
        for g in range(shard[1], shard[2]):
            A = [[sc * (0.31 * (i % 4) + 0.011 * i * i), sc * (0.27 * (i // 4) + 0.007 * i)] for i in range(g)]
            B = [[a[0] * 1.07 + sc * 10.23, a[1] * 0.93 + sc * 0.013] for a in A]    # not a translate: no ties
            stray = [sc * 5.4, sc * 9.9]
            for ls in (0, 1):
                rows = [(p, 0) for p in A] + [(p, 1) for p in B] + [(stray, ls)]
                for order in (rows, rows[::-1], [rows[-1]] + rows[:-1], rows[::2] + rows[1::2]):
                    yield {"model": "SupervisedOPF", "mode": "features", "metric": "euclidean",
                           "X": [r[0] for r in order], "labels": [r[1] for r in order]}
        return
    if shard[0] in ("neg", "bigint"):
        kind, n, m, a, b = shard
        if kind == "neg":
            table = [-5.0, -1.0, 2.0][:m] if m == 3 else [-1.0, 1.0]
            if seed:
                table = [v * [1.0, 0.5, 3.0, 7.0][seed % 4] for v in table]
        else:
            table = [2 ** 53, 2 ** 53 + 1, 2 ** 53 + 2]
        for gi in range(a, b):
            ranks = E.graph_ranks(n, m, gi)
            W = [[0] * n for _ in range(n)]
            for (i, j), r in zip(E.edges(n), ranks):
                W[i][j] = W[j][i] = table[r]
            for lab in E.labelings(n):
                prog = {"model": "SupervisedOPF", "mode": "pre", "W": W,
                        "labels": list(E.rename_classes(lab, seed))}
                if kind == "bigint":
                    prog["matrix_dtype"] = "int64"
                yield prog
                if kind == "neg" and n == 4:
                    for nl in (3,):
                        if len(set(lab[:nl])) >= 2:
                            yield {"model": "SemiSupervisedOPF", "mode": "pre", "W": W,
                                   "labels": list(E.rename_classes(lab, seed))[:nl], "n_unlabeled": n - nl}
        return
    _, nl, nu, m, zero, a, b = shard
    n = nl + nu
    table = E.value_table(seed, m, zero=zero)
    labs = E.labelings(nl)
    for gi in range(a, b):
        W = E.matrix_from_ranks(n, E.graph_ranks(n, m, gi), table).tolist()
        for lab in labs:
            yield {"model": "SemiSupervisedOPF", "mode": "pre", "W": W,
                   "labels": list(E.rename_classes(lab, seed)), "n_unlabeled": nu}


@functools.lru_cache(maxsize=200000)
def _boundary(n, ti, lab):
    return F.boundary_set(n, F.spanning_trees(n)[ti], lab)


def kruskal_boundary(n, ew, lab):
    edges = E.edges(n)
    parent = list(range(n))

    def find(x):
        while parent[x] != x:
            x = parent[x]
        return x

    out = set()
    for w, (a, b) in sorted(zip(ew, edges)):
        ra, rb = find(a), find(b)
        if ra != rb:
            parent[ra] = rb
            if lab[a] != lab[b]:
                out.add(a)
                out.add(b)
    return frozenset(out)


def run_case(prog, res=None, model=None):
    try:
        m, Wd = sup.fit_program(prog, model=model)
        obs = sup.observe(m)
    except Horizon:
        raise
    except Exception as ex:
        return viol(prog, "fit raised %r" % (ex,), "fit raised")
    return judge(prog, obs, Wd, tuple(prog["labels"]), res)


def judge_learned(prog, obs, Wd, labels, model=None):
    v = judge(prog, obs, Wd, tuple(labels), None)
    if v:
        v["explanation"] = "classifier left by learn(): " + v["explanation"]
        v["fingerprint"] += " (after learn)"
    return v


def judge(prog, obs, Wd, lab, res=None):
    nl = len(lab)
    nodes = obs["nodes"]
    S = frozenset(i for i in range(len(nodes)) if nodes[i]["status"] == 1)
    ew = [Wd[a][b] for a, b in E.edges(nl)]
    if nl > 7:
        # too many spanning trees to enumerate: only instances with pairwise distinct weights are
        # generated at this size, where the minimum spanning tree is unique (Kruskal)
        if len(set(ew)) != len(ew):
            if res is not None:
                res.skip("tied weights at n > 7")
            return None
        mins = [0]
        fam = {kruskal_boundary(nl, ew, lab)}
    elif all(isinstance(w, int) for w in ew):
        # integer weights (possibly beyond 2**53): tree weights are summed exactly
        trees = F.spanning_trees(nl)
        tw = [sum(ew[e] for e in t) for t in trees]
        mn = min(tw)
        mins = [i for i, w in enumerate(tw) if w == mn]
        fam = {_boundary(nl, int(ti), lab) for ti in mins}
    else:
        mins = F.mst_indices(nl, ew)
        fam = {_boundary(nl, int(ti), lab) for ti in mins}
    if S not in fam:
        return viol(prog, "flagged prototypes %s; the minimum spanning trees of the labeled "
                    "graph allow only %s" % (sorted(S), sorted(sorted(x) for x in fam)),
                    "prototype set not an MST boundary", obs)
    for cl in set(lab):
        if not any(lab[s] == cl for s in S):
            return viol(prog, "class %d has no prototype" % cl, "class without prototype", obs)
    for s in S:
        nd = nodes[s]
        if nd["cost"] != 0.0 or nd["pred"] != -1 or nd["plabel"] != lab[s]:
            return viol(prog, "prototype %d has cost %r, pred %d, label %d (own label %d) after "
                        "training" % (s, nd["cost"], nd["pred"], nd["plabel"], lab[s]),
                        "prototype state", obs)
    if res is not None:
        if len(mins) > 1 or len(S) < nl:
            res.nontrivial += 1
        if len(set(ew)) == len(ew):
            res.count("tie_free_graphs_unique_mst")
            if len(fam) != 1:
                return viol(prog, "distinct weights but %d candidate prototype sets" % len(fam),
                            "oracle: MST not unique", obs)
        res.outcome((nl, tuple(sorted(S))))
    return None


def viol(prog, prob, sym, obs=None):
    return {"check": "prototypes", "program": prog, "observed": obs if obs else prob,
            "allowed": "boundary endpoints of some minimum spanning tree",
            "explanation": prob,
            "fingerprint": "%s._find_prototypes: %s" % (prog.get("model", "SupervisedOPF"), sym)}


_PREV = {}


def _key(prog):
    return sup.cache_key(prog) if prog["model"] in ("SupervisedOPF", "SemiSupervisedOPF") else None


def run(shard, seed):
    res = Result()
    if shard[0] == "learn":
        return c01.run_learn(shard, seed, res, judge_learned)
    k = 0
    for prog in programs(shard, seed):
        try:
            with horizon(10.0):
                if "previous" in prog:
                    v = sup.replay_with_history(lambda p, r=None, model=None: run_case(p, res if p is not prog.get("previous") else None, model), prog)
                    res.transitions += 1
                else:
                    v = run_case(prog, res)
        except Horizon as hz:
            v = viol(prog, str(hz), "no termination")
        res.evaluations += 1
        res.states += 1
        res.traces += 1
        res.transitions += 1
        if k == 0:
            res.sample(prog, 1)
        k += 1
        if v:
            prev = _PREV.get(_key(prog)) if _key(prog) is not None else None
            sup.with_history(v, prev)
            res.violations.append(v)
            if res.full:
                break
        _PREV[_key(prog)] = prog
    return res


def replay(case):
    if "learn" in case["program"]:
        return c01.learn_case(case["program"], judge_learned)[1]
    return sup.replay_with_history(run_case, case["program"])
