"""C07 - no call modifies caller data; results depend only on argument
values.  Explorer B over call histories: the state is the bit pattern of a
pool of caller-owned arrays plus a digest of hidden state (module-level
mutable objects of opfython.*, the NumPy global RNG, the model's own forest);
every transition is a real API call; invariants: pool unchanged, return value
equal to the value of the same call from the pristine state."""
import collections
import hashlib
import itertools
import os
import sys
import tempfile

import numpy as np

from mc import knn as K
from mc.oracles import axioms
from mc.runner import Result, horizon, Horizon, scratch_dir

ID = "C07"
TITLE = "no call modifies caller data; results depend only on argument values"
RULE = ("(1) per metric: ALL histories of length <= 3 over {evaluate on an ordered pair of pool "
        "vectors (aliased pairs x is y included), the caller overwrites one of its own vectors in "
        "place with another pool value, an evaluation on float32 copies} for a pool of domain vectors containing "
        "exact zeros, -0.0, 3.3e-22 and 5e-324 - after "
        "every call the pool must be bit-identical to what the caller wrote and the value equal to "
        "that of the same call on fresh arrays holding the same values; (2) per model kind x metric: breadth-first search over histories of "
        "{fit, predict(queries), predict(training matrix), get_distances, pre_compute_distance, "
        "metric on rows of the caller's matrix, fit of an unrelated model on other data of the same "
        "size, ... of another size} (every history replayed from the pristine state: module-level "
        "mutable objects of opfython.* and the NumPy RNG are restored first) with state = (pool bits, hidden-state digest, "
        "model digest) to fixpoint (depth bound 4): pool unchanged and each return value equal "
        "to its pristine reference on every transition; (3) two fresh models fitted on equal "
        "data, with arbitrary calls in between (also: numpy.empty/empty_like serving 1e300 for the second fit - "
        "uninitialised memory is an environment answer), have identical forests and predictions. "
        "Non-trivial = the history has >= 2 calls (an earlier call could have influenced it)")
ASSUMPTIONS = [
    "arrays are C-contiguous float64 (and int64 label/index arrays); read-only and strided "
    "views are not exercised",
    "hidden state the digest cannot see (closures, C-level state) is covered only by the "
    "literal histories of length <= 3 / depth <= 4",
]
KINDS = ["SupervisedOPF", "SemiSupervisedOPF", "KNNSupervisedOPF", "UnsupervisedOPF"]
MODEL_METRICS = {"quick": ["log_squared_euclidean", "canberra"],
                 "thorough": ["log_squared_euclidean", "canberra", "jaccard", "bray_curtis",
                              "euclidean", "chi_squared", "hassanat", "squared_chord"]}


def bounds(tier):
    return {"metric_histories": "47 metrics x pool of 3 vectors (4 thorough) x all histories of "
            "length <= 3 over all ordered pairs",
            "model_bfs": "4 kinds x %s, depth <= 4" % MODEL_METRICS[tier],
            "fresh_twice": "4 kinds x metrics x 3 datasets x interleaved calls"}


def plan(tier, seed):
    shards = [("hist", name, tier) for name in axioms.NAMES]
    for kind in KINDS:
        for mt in MODEL_METRICS[tier]:
            shards.append(("bfs", kind, mt, tier))
            shards.append(("twice", kind, mt, tier))
        shards.append(("bfs", kind, "log_squared_euclidean", tier, "nonfinite"))
        # caller matrices in non-native byte order (as read from a big-endian file); jaccard is the
        # metric that accepts them
        shards.append(("bfs", kind, "jaccard", tier, "bigendian"))
        # heavily tied training sets (all arrangements of the unit square's corners): fits that end with
        # training errors must leave the caller's label array alone as well
        shards.append(("ties", kind))
    return shards


def warm():
    # the pristine snapshot is taken right after import, BEFORE any library call
    import opfython.models  # noqa
    import opfython.math.general  # noqa
    import opfython.stream.splitter  # noqa
    import opfython.utils.converter  # noqa
    snapshot_module_state()
    from mc.warm import warm_metrics, warm_dtypes
    warm_metrics()
    warm_dtypes()
    restore_module_state()


# --------------------------------------------------------------------------
def bits(a):
    a = np.asarray(a)
    return (str(a.dtype), a.shape, a.tobytes())


def pool_bits(pool):
    return tuple(bits(a) for a in pool)


def val_repr(v):
    """Canonical, NaN-safe representation of a return value."""
    if isinstance(v, tuple):
        return tuple(val_repr(x) for x in v)
    if isinstance(v, list):
        return tuple(val_repr(x) for x in v)
    if isinstance(v, np.ndarray):
        return ("nd", v.shape, v.astype(float).tobytes())
    if v is None:
        return None
    try:
        return ("f", np.float64(v).tobytes())
    except Exception:
        return repr(v)


def hidden_digest():
    h = hashlib.sha1()
    for name in sorted(sys.modules):
        if not (name == "opfython" or name.startswith("opfython.")):
            continue
        mod = sys.modules[name]
        for attr in sorted(vars(mod)):
            if attr.startswith("__"):
                continue
            val = vars(mod)[attr]
            _dig(h, name + "." + attr, val)
            if isinstance(val, type) and getattr(val, "__module__", "").startswith("opfython"):
                for ca in sorted(vars(val)):
                    if not ca.startswith("__"):
                        _dig(h, name + "." + attr + "." + ca, vars(val)[ca])
    st = np.random.get_state()
    h.update(st[1].tobytes())
    h.update(repr(st[2:]).encode())
    return h.hexdigest()


def _dig(h, label, val):
    if isinstance(val, np.ndarray):
        h.update(label.encode())
        h.update(val.tobytes())
    elif isinstance(val, (list, dict, set, frozenset, tuple, bytearray)):
        h.update(label.encode())
        h.update(repr(val).encode())
    elif isinstance(val, (int, float, str, bool)):
        h.update(label.encode())
        h.update(repr(val).encode())


def _mutable_slots():
    """(owner dict, key, value) of every module-level / class-level mutable container or array
    of opfython.* (registries whose values are all callables are treated as constants)."""
    out = []
    for name in sorted(sys.modules):
        if not (name == "opfython" or name.startswith("opfython.")):
            continue
        mod = sys.modules[name]
        owners = [vars(mod)]
        for attr, val in list(vars(mod).items()):
            if isinstance(val, type) and getattr(val, "__module__", "").startswith("opfython"):
                owners.append(None)  # class dicts are mappingproxies: handled through setattr
                for ca, cv in list(vars(val).items()):
                    if not ca.startswith("__") and isinstance(cv, (dict, list, set, bytearray, np.ndarray)):
                        out.append((val, ca, cv))
        for attr, val in list(vars(mod).items()):
            if attr.startswith("__"):
                continue
            if isinstance(val, dict) and val and all(callable(v) for v in val.values()):
                continue
            if isinstance(val, (dict, list, set, bytearray, np.ndarray)):
                out.append((mod, attr, val))
    return out


_PRISTINE = None


def snapshot_module_state():
    global _PRISTINE
    import copy
    if _PRISTINE is None:
        _PRISTINE = []
        for owner, key, val in _mutable_slots():
            try:
                saved = copy.deepcopy(val)
            except Exception:
                saved = copy.copy(val)
            _PRISTINE.append((owner, key, saved))
        _PRISTINE.append(("rng", None, np.random.get_state()))


def restore_module_state():
    """Put every module-level mutable object of opfython.* (and the NumPy global RNG) back
    to its state right after import, so that each replayed history really starts from the
    pristine state."""
    import copy
    snapshot_module_state()
    for owner, key, saved in _PRISTINE:
        if owner == "rng":
            np.random.set_state(saved)
            continue
        cur = getattr(owner, key, None)
        fresh = copy.deepcopy(saved)
        if isinstance(cur, dict) and isinstance(fresh, dict):
            cur.clear()
            cur.update(fresh)
        elif isinstance(cur, list) and isinstance(fresh, list):
            cur[:] = fresh
        elif isinstance(cur, set) and isinstance(fresh, set):
            cur.clear()
            cur.update(fresh)
        else:
            setattr(owner, key, fresh)


def metric_pool(name, seed, tier):
    """Domain vectors containing exact zeros where the domain has them."""
    # exact zeros, a negative zero, a value far below the epsilon shift and the smallest subnormal:
    # all of them must come back bit-for-bit
    if name in axioms.R_CLASS or name == "hassanat":
        vs = [(0.0, 1.0, -2.0), (-0.0, 3.0, 3.3e-22), (0.5, 5e-324, 0.25), (0.0, 0.0, 0.0)]
    else:
        vs = [(0.0, 1.0, 2.0), (-0.0, 3.0, 3.3e-22), (0.5, 5e-324, 0.25), (0.0, 0.0, 1.0)]
    if seed:
        sc = [1.0, 0.5, 2.0, 3.0][seed % 4]
        vs = [tuple(sc * x for x in v) for v in vs]
    return vs[:3] if tier == "quick" else vs


def viol(check, prog, prob, sym):
    return {"check": check, "program": prog, "observed": prob,
            "allowed": "caller arrays bit-identical; value independent of history",
            "explanation": prob, "fingerprint": sym}


# --------------------------------------------------------------------------
# (1) metric call histories
# --------------------------------------------------------------------------
def run_history(name, vs, hist):
    """hist: list of ("c", i, j) = evaluate the metric on pool[i], pool[j] (the very
    objects, aliased when i == j), or ("w", i, k) = the CALLER overwrites its own
    vector pool[i] in place with the values of vs[k] (allowed: it is the caller's
    array).  Legacy form (i, j) = call.  Returns (problem, symptom) or (None, None)."""
    import opfython.math.distance as D
    fn = D.DISTANCES[name]
    refs = pristine_refs(name, vs)
    restore_module_state()        # every history starts from the state right after import
    # the caller keeps its vectors as the rows of ONE matrix (as the models do): what lies in memory
    # right after a vector is the next vector, which the caller may overwrite
    P = np.array(vs, dtype=float)
    pool = [P[i] for i in range(len(vs))]
    cur = list(range(len(vs)))
    for step, op in enumerate(hist):
        if len(op) == 2:
            op = ("c",) + tuple(op)
        if op[0] == "w":
            _, i, k = op
            pool[i][:] = np.array(vs[k], dtype=float)
            cur[i] = k
            continue
        if op[0] == "c32":
            # an evaluation on single-precision copies is only part of the history
            _, i, j = op
            try:
                fn(np.array(vs[cur[i]], dtype=np.float32), np.array(vs[cur[j]], dtype=np.float32))
            except Exception:
                pass
            continue
        _, i, j = op
        expected = tuple(bits(np.array(vs[c], dtype=float)) for c in cur)
        # pristine reference of this call: fresh arrays holding the current values, evaluated as
        # the very first call after import (table computed once per metric)
        ref = refs[(cur[i], cur[j], i == j)]
        try:
            got = val_repr(fn(pool[i], pool[j]))
        except Exception as ex:
            got = "raised " + type(ex).__name__
        now = pool_bits(pool)
        if now != expected:
            ch = [k for k in range(len(pool)) if now[k] != expected[k]]
            return ("after call %d = %s(pool[%d], pool[%d]) the caller's vector(s) %s changed: "
                    "%s -> %s" % (step, name, i, j, ch, [list(vs[cur[k]]) for k in ch],
                                  [pool[k].tolist() for k in ch]), "caller vector modified")
        if got != ref:
            return ("call %d = %s(pool[%d], pool[%d]) on values %s, %s returned a different value after "
                    "the history %s than on fresh arrays holding the same values"
                    % (step, name, i, j, list(vs[cur[i]]), list(vs[cur[j]]), list(hist[:step])),
                    "value depends on history")
    return None, None


_REFS = {}


def pristine_refs(name, vs):
    key = (name, tuple(vs))
    if key in _REFS:
        return _REFS[key]
    import opfython.math.distance as D
    fn = D.DISTANCES[name]
    table = {}
    for a in range(len(vs)):
        for b in range(len(vs)):
            for alias in ((False, True) if a == b else (False,)):
                restore_module_state()
                rx = np.array(vs[a], dtype=float)
                ry = rx if alias else np.array(vs[b], dtype=float)
                try:
                    table[(a, b, alias)] = val_repr(fn(rx, ry))
                except Exception as ex:
                    table[(a, b, alias)] = "raised " + type(ex).__name__
    # an aliased call on equal values of two different pool slots cannot occur (alias means i == j)
    _REFS[key] = table
    return table


def hist_ops(nv):
    calls = [("c", i, j) for i in range(nv) for j in range(nv)]
    writes = [("w", i, k) for i in range(nv) for k in range(nv)]
    writes += [("c32", 0, 1), ("c32", 1, 1)]     # single-precision evaluations (history only)
    return calls, writes


def shard_hist(shard, seed, res):
    _, name, tier = shard
    vs = metric_pool(name, seed, tier)
    calls, writes = hist_ops(len(vs))
    allops = calls + writes
    stop = False
    for L in (1, 2, 3):
        for prefix in itertools.product(allops, repeat=L - 1):
            for last in calls:            # a history is judged at its calls; it ends with one
                hist = list(prefix) + [last]
                r = run_history(name, vs, hist)
                res.evaluations += 1
                res.transitions += L
                res.traces += 1
                if L >= 2:
                    res.nontrivial += 1
                if r[0]:
                    res.violations.append(viol("metric-history",
                                               {"part": "hist", "metric": name, "pool": [list(v) for v in vs],
                                                "history": [list(h) for h in hist]}, r[0],
                                               "DISTANCES[decorated]: " + r[1] if name in axioms.DECORATED
                                               else "DISTANCES[%s]: %s" % (name, r[1])))
                    stop = True
                    break
            if stop:
                break
        if stop:
            break
    res.states += 1
    res.outcome((name, "hist"))
    res.sample({"metric": name, "pool": [list(v) for v in vs],
                "history": [["c", 0, 1], ["w", 0, 1], ["c", 0, 1]]}, 1)


# --------------------------------------------------------------------------
# (2) model-operation BFS
# --------------------------------------------------------------------------
DATA = {
    "X": [[0.0, 0.0], [1.0, 0.0], [0.0, 2.0], [3.0, 3.0], [4.0, 3.0], [3.0, 0.0]],
    "Y": [0, 0, 0, 1, 1, 1],
    "Xu": [[2.0, 0.0], [0.0, 3.0]],
    "Xv": [[0.0, 1.0], [4.0, 4.0], [2.0, 0.0]],
    "Yv": [0, 1, 1],
    "Xq": [[0.0, 0.0], [2.0, 2.0], [0.0, 1.0], [5.0, 0.0]],
}


NONFINITE = [False]
BIGENDIAN = [False]
TINY_NEGATIVE = 0.3 - 0.2 - 0.1        # -2.78e-17: what is left of "zero" after ordinary arithmetic
SIGNED_OK = None


def make_world(seed, metric=None):
    sc = [1.0, 0.5, 2.0, 3.0][seed % 4] if seed else 1.0
    w = {k: (np.array(v, dtype=float) * sc if k.startswith("X") else np.array(v, dtype=int))
         for k, v in DATA.items()}
    if BIGENDIAN[0]:
        for k in ("X", "Xu", "Xv", "Xq"):
            w[k] = w[k].astype(">f8")
    if NONFINITE[0]:
        # prediction-side matrices may hold non-finite entries; they belong to the caller all the same
        w["Xq"][1, 0] = np.inf
        w["Xq"][2, 1] = np.nan
        w["Xq"][3, 0] = -np.inf
        w["Xv"][1, 1] = np.inf
    if metric is not None and (metric in axioms.R_CLASS or metric == "canberra"):
        # metrics defined for all reals: some exact zeros of the data become tiny negative values
        for k in ("X", "Xu", "Xv", "Xq"):
            w[k][0, 1] = TINY_NEGATIVE
            w[k][-1, 0] = TINY_NEGATIVE
    return w


WORLD_KEYS = ["X", "Y", "Xu", "Xv", "Yv", "Xq"]


def other_world(w, small=False):
    X = w["X"][::-1].copy() * 1.5 + 0.25
    Y = w["Y"][::-1].copy()
    if small:
        X, Y = X[1:], Y[1:]
    return {"X": X, "Y": Y, "Xu": w["Xu"] * 0.5 + 1.0, "Xv": w["Xv"].copy(), "Yv": w["Yv"].copy(),
            "Xq": w["Xq"].copy()}


def new_model(kind, metric):
    import opfython.models as M
    if kind == "KNNSupervisedOPF":
        return M.KNNSupervisedOPF(max_k=2, distance=metric)
    if kind == "UnsupervisedOPF":
        return M.UnsupervisedOPF(min_k=1, max_k=2, distance=metric)
    return getattr(M, kind)(distance=metric)


def model_digest(m):
    if m.subgraph is None:
        return None
    sg = m.subgraph
    parts = []
    for nd in sg.nodes:
        parts.append((float(nd.cost), int(nd.pred), int(nd.predicted_label), int(nd.label),
                      int(nd.status), float(nd.density), int(nd.root), int(nd.cluster_label),
                      nd.features.tobytes()))
    extra = tuple(getattr(sg, a, None) for a in ("best_k", "n_clusters", "constant", "density",
                                                  "min_density", "max_density"))
    return hashlib.sha1(repr((parts, list(sg.idx_nodes), extra)).encode()).hexdigest()


def apply_op(op, kind, metric, w, m, tmpdir):
    """Executes one real API call on world w / model m; returns value."""
    import opfython.math.general as g
    import opfython.math.distance as D
    if op == "fit":
        if kind == "SemiSupervisedOPF":
            m.fit(w["X"], w["Y"], w["Xu"])
        elif kind == "KNNSupervisedOPF":
            m.fit(w["X"], w["Y"], w["Xv"], w["Yv"])
        else:
            m.fit(w["X"], w["Y"])
        return None
    if op == "predict_q":
        return m.predict(w["Xq"])
    if op == "predict_train":
        return m.predict(w["X"])
    if op == "get_distances":
        return m.get_distances()
    if op == "pre_compute":
        path = os.path.join(tmpdir, "d.txt")
        g.pre_compute_distance(w["X"], path, metric)
        return np.loadtxt(path)
    if op == "metric_rows":
        return D.DISTANCES[metric](w["X"][0], w["X"][2])
    if op == "metric_alias":
        return D.DISTANCES[metric](w["Xq"][0], w["Xq"][0])
    if op in ("fit_other", "fit_small"):
        # an unrelated model object of the same kind is fitted on OTHER data (same size /
        # one row less); nothing of it is observed - it only is part of the history
        w2 = other_world(w, small=(op == "fit_small"))
        apply_op("fit", kind, metric, w2, new_model(kind, metric), tmpdir)
        return None
    if op == "refit_tiny":
        # THIS object is first fitted on a two-sample subset (one sample per class): fewer samples
        # than its configured neighbourhood sizes; whatever that call does, later fits must not depend on it
        idx = [int(np.flatnonzero(w["Y"] == cl)[0]) for cl in sorted(set(w["Y"].tolist()))][:2]
        w2 = dict(w, X=w["X"][idx].copy(), Y=w["Y"][idx].copy(), Xu=w["Xu"][:1].copy())
        apply_op("fit", kind, metric, w2, m, tmpdir)
        return None
    raise ValueError(op)


OPS = ["fit", "predict_q", "predict_train", "get_distances", "pre_compute", "metric_rows",
       "metric_alias", "fit_other", "fit_small", "refit_tiny"]
NEEDS_FIT = {"predict_q", "predict_train", "get_distances"}


def run_ops(kind, metric, seed, hist, tmpdir, check=True, refs=None):
    """Replays a history on a pristine world.  Returns (problem, symptom,
    state_key, value of the last op)."""
    restore_module_state()
    w = make_world(seed, metric)
    orig = {k: bits(w[k]) for k in WORLD_KEYS}
    m = new_model(kind, metric)
    val = None
    for step, op in enumerate(hist):
        try:
            val = val_repr(apply_op(op, kind, metric, w, m, tmpdir))
        except Horizon:
            raise
        except Exception as ex:
            val = "raised %s" % type(ex).__name__
        if check:
            ch = [k for k in WORLD_KEYS if bits(w[k]) != orig[k]]
            if ch:
                return ("after %s %s on %s the caller's array(s) %s changed (e.g. %s)"
                        % (hist[:step + 1], kind, metric, ch, w[ch[0]].tolist()),
                        "caller array modified by %s" % op, None, val)
            last_fit = [o for o in hist[:step] if o in ("fit", "refit_tiny")][-1:]
            if op in NEEDS_FIT and last_fit != ["fit"]:
                continue      # the object currently holds the two-sample classifier: nothing to compare with
            if refs is not None and step == len(hist) - 1:
                ref = refs.get(op)
                if ref is not None and ref != val:
                    return ("%s.%s on %s returned a different result after the history %s than "
                            "from the pristine state" % (kind, op, metric, hist[:step]),
                            "result of %s depends on history" % op, None, val)
    fitted = m.subgraph is not None and bool(m.subgraph.trained)
    key = (tuple(sorted((k, hashlib.sha1(repr(bits(w[k])).encode()).hexdigest()) for k in WORLD_KEYS)),
           hidden_digest(), fitted, model_digest(m))
    return None, None, key, val


def shard_bfs(shard, seed, res):
    _, kind, metric, tier = shard[:4]
    NONFINITE[0] = len(shard) > 4 and shard[4] == "nonfinite"
    BIGENDIAN[0] = len(shard) > 4 and shard[4] == "bigendian"
    tmpdir = tempfile.mkdtemp(prefix="c07-", dir=scratch_dir())
    try:
        # pristine references: value of each op after the minimal prerequisite
        refs = {}
        for op in OPS:
            pre = ["fit"] if op in NEEDS_FIT else []
            _, _, _, v = run_ops(kind, metric, seed, pre + [op], tmpdir, check=False)
            refs[op] = v
        depth = 4
        p, s, k0, _ = run_ops(kind, metric, seed, [], tmpdir)
        seen = {k0}
        frontier = collections.deque([([], k0)])
        while frontier:
            hist, key = frontier.popleft()
            res.states += 1
            fitted = key[2]
            for op in OPS:
                if op in NEEDS_FIT and not fitted:
                    continue
                h2 = hist + [op]
                with horizon(60.0):
                    prob, sym, k2, _ = run_ops(kind, metric, seed, h2, tmpdir, refs=refs)
                res.transitions += 1
                res.evaluations += 1
                res.traces += 1
                if len(h2) >= 2:
                    res.nontrivial += 1
                if prob:
                    res.violations.append(viol("model-history",
                                               {"part": "bfs", "kind": kind, "metric": metric,
                                                "history": h2, "seed": seed, "nonfinite": NONFINITE[0],
                                                "bigendian": BIGENDIAN[0]},
                                               prob, "%s: %s" % (kind, sym)))
                    if res.full:
                        return
                    continue
                if k2 not in seen:
                    seen.add(k2)
                    if len(h2) < depth:
                        frontier.append((h2, k2))
                    else:
                        res.capped = res.capped or None
                        res.count("states_at_depth_bound")
        res.outcome((kind, metric, len(seen)))
        res.sample({"kind": kind, "metric": metric, "ops": OPS, "distinct_states": len(seen)}, 1)
    finally:
        import shutil
        shutil.rmtree(tmpdir, ignore_errors=True)


# --------------------------------------------------------------------------
# (3) fresh twice
# --------------------------------------------------------------------------
def observe_full(kind, m, w):
    out = [model_digest(m)]
    if kind == "UnsupervisedOPF":
        m.propagate_labels()
    out.append(val_repr(m.predict(w["Xq"].copy())))
    out.append(val_repr(m.predict(w["X"].copy())))
    return out


import contextlib


@contextlib.contextmanager
def uninitialised_memory(value):
    """numpy.empty / empty_like are seams: what uninitialised memory contains is an environment
    answer, served here deterministically (`value` everywhere)."""
    real_empty, real_like = np.empty, np.empty_like

    def empty(shape, dtype=float, order="C", **kw):
        a = real_empty(shape, dtype=dtype, order=order)
        try:
            a.fill(value)
        except Exception:
            pass
        return a

    def empty_like(proto, dtype=None, order="K", subok=True, shape=None, **kw):
        a = real_like(proto, dtype=dtype, order=order, subok=subok, shape=shape)
        try:
            a.fill(value)
        except Exception:
            pass
        return a

    np.empty, np.empty_like = empty, empty_like
    try:
        yield
    finally:
        np.empty, np.empty_like = real_empty, real_like


def poison_allocator():
    """The content of uninitialised memory is an environment answer: recently freed small blocks are
    filled with huge values, so that any buffer used before being initialised shows."""
    junk = []
    for size in range(1, 17):
        for _ in range(64):
            junk.append(np.full(size, 1e300))
            junk.append(np.full(size, -1e300))
    del junk


def run_twice(kind, metric, seed, between, tmpdir):
    restore_module_state()
    w1 = make_world(seed, metric)
    m1 = new_model(kind, metric)
    apply_op("fit", kind, metric, w1, m1, tmpdir)
    o1 = observe_full(kind, m1, w1)
    wb = make_world(seed + 1, metric)
    mb = new_model(kind, metric)
    for op in between:
        try:
            if op == "poison":
                poison_allocator()
            else:
                apply_op(op, kind, metric, wb, mb, tmpdir)
        except Exception:
            pass
    w2 = make_world(seed, metric)
    m2 = new_model(kind, metric)
    if "poison" in between:
        # the second fit sees huge values wherever it reads memory it did not initialise
        with uninitialised_memory(1e300):
            apply_op("fit", kind, metric, w2, m2, tmpdir)
            o2 = observe_full(kind, m2, w2)
    else:
        apply_op("fit", kind, metric, w2, m2, tmpdir)
        o2 = observe_full(kind, m2, w2)
    if o1 != o2:
        what = ["forest", "predictions on queries", "predictions on the training set"]
        diff = [what[i] for i in range(3) if o1[i] != o2[i]]
        return ("two fresh %s(%s) objects fitted on equal data differ in %s (calls in between: %s)"
                % (kind, metric, diff, between), "fresh fits differ")
    return None, None


def shard_twice(shard, seed, res):
    _, kind, metric, tier = shard
    tmpdir = tempfile.mkdtemp(prefix="c07-", dir=scratch_dir())
    try:
        betweens = [[]] + [list(p) for L in (1, 2) for p in itertools.product(
            ["fit", "fit_small", "fit_other", "predict_train", "metric_rows", "pre_compute"], repeat=L)
            if not (p[0] == "predict_train")] + [["poison"], ["fit", "poison"], ["fit_small", "poison"]]
        for b in betweens:
            try:
                with horizon(60.0):
                    prob, sym = run_twice(kind, metric, seed, b, tmpdir)
            except Horizon as hz:
                prob, sym = str(hz), "no termination"
            except Exception as ex:
                prob, sym = "raised %r" % (ex,), "raised %s" % type(ex).__name__
            res.evaluations += 1
            res.transitions += 2 + len(b)
            res.traces += 1
            res.states += 1
            res.nontrivial += 1
            if prob:
                res.violations.append(viol("fresh-twice", {"part": "twice", "kind": kind,
                                                            "metric": metric, "between": b, "seed": seed},
                                           prob, "%s: %s" % (kind, sym)))
                if res.full:
                    return
        res.outcome((kind, metric, "twice"))
    finally:
        import shutil
        shutil.rmtree(tmpdir, ignore_errors=True)


def ties_case(prog):
    """fit (+ predict) on a tied training set; every caller array must keep its bits."""
    kind = prog["kind"]
    X = np.array(prog["X"], dtype=float)
    Y = np.array(prog["Y"], dtype=int)
    if prog.get("ycol"):
        Y = Y.reshape(-1, 1)          # labels handed over as a column (a slice `table[:, 1:2]`)
    arrays = {"X": X, "Y": Y}
    m = new_model(kind, "euclidean")
    if kind == "SemiSupervisedOPF":
        arrays = {"X": X[:3].copy(), "Y": Y[:3].copy(), "Xu": X[3:].copy()}
    elif kind == "KNNSupervisedOPF":
        arrays["Xv"], arrays["Yv"] = X.copy(), Y.copy()
    before = {k: bits(v) for k, v in arrays.items()}
    try:
        if kind == "SemiSupervisedOPF":
            m.fit(arrays["X"], arrays["Y"], arrays["Xu"])
        elif kind == "KNNSupervisedOPF":
            m.fit(arrays["X"], arrays["Y"], arrays["Xv"], arrays["Yv"])
        else:
            m.fit(arrays["X"], arrays["Y"])
        m.predict(arrays["X"])
    except Horizon:
        raise
    except Exception:
        pass
    ch = [k for k, v in arrays.items() if bits(v) != before[k]]
    if ch:
        return viol("model-history", prog, "after %s.fit / predict on %s with labels %s the caller's array(s) %s "
                    "changed (e.g. %s)" % (kind, prog["X"], prog["Y"], ch, arrays[ch[0]].tolist()),
                    "%s: caller array modified by fit" % kind)
    return None


def shard_ties(shard, seed, res):
    _, kind = shard
    sc = [1.0, 0.5, 2.0, 3.0][seed % 4] if seed else 1.0
    corners = [(0.0, 0.0), (sc, 0.0), (0.0, sc), (sc, sc)]
    from mc import enum as E
    prog = None
    for seq in itertools.product(range(4), repeat=4):
        for lab in E.labelings(4, max_classes=2):
            if kind == "SemiSupervisedOPF" and len(set(lab[:3])) < 2:
                continue
            prog = {"part": "ties", "kind": kind, "X": [list(corners[i]) for i in seq], "Y": list(lab)}
            if sum(seq) % 5 == 0:
                prog["ycol"] = True
            with horizon(30.0):
                v = ties_case(prog)
            res.evaluations += 1
            res.transitions += 2
            res.traces += 1
            res.states += 1
            res.nontrivial += 1
            if v:
                res.violations.append(v)
                return
    res.sample(prog, 1)
    res.outcome((kind, "ties"))


def run(shard, seed):
    res = Result()
    NONFINITE[0] = False
    BIGENDIAN[0] = False
    if shard[0] == "ties":
        shard_ties(shard, seed, res)
        return res
    if shard[0] == "hist":
        shard_hist(shard, seed, res)
    elif shard[0] == "bfs":
        shard_bfs(shard, seed, res)
    else:
        shard_twice(shard, seed, res)
    return res


def replay(case):
    NONFINITE[0] = False
    BIGENDIAN[0] = False
    return _replay(case)


def _replay(case):
    p = case["program"]
    NONFINITE[0] = False
    seed = int(p.get("seed", 0))
    tmpdir = tempfile.mkdtemp(prefix="c07-", dir=scratch_dir())
    try:
        if p["part"] == "hist":
            r = run_history(p["metric"], [tuple(v) for v in p["pool"]],
                            [tuple(h) for h in p["history"]])
            if r[0]:
                return viol("metric-history", p, r[0], case.get("fingerprint"))
            return None
        if p["part"] == "ties":
            return ties_case(p)
        if p["part"] == "bfs":
            kind, metric, hist = p["kind"], p["metric"], p["history"]
            NONFINITE[0] = bool(p.get("nonfinite"))
            BIGENDIAN[0] = bool(p.get("bigendian"))
            refs = {}
            op = hist[-1]
            pre = ["fit"] if op in NEEDS_FIT else []
            refs[op] = run_ops(kind, metric, seed, pre + [op], tmpdir, check=False)[3]
            prob, sym, _, _ = run_ops(kind, metric, seed, hist, tmpdir, refs=refs)
            if prob:
                return viol("model-history", p, prob, "%s: %s" % (kind, sym))
            return None
        prob, sym = run_twice(p["kind"], p["metric"], seed, p["between"], tmpdir)
        if prob:
            return viol("fresh-twice", p, prob, "%s: %s" % (p["kind"], sym))
        return None
    finally:
        import shutil
        shutil.rmtree(tmpdir, ignore_errors=True)
