"""C07 - no call modifies caller data; results depend only on argument
values.  Explorer B over call histories: the state is the bit pattern of a
pool of caller-owned arrays plus a digest of hidden state (module-level
mutable objects of opfython.*, the NumPy global RNG, the model's own forest);
every transition is a real API call; invariants: pool unchanged, return value
equal to the value of the same call from the pristine state."""
import collections
import hashlib
import itertools
import os
import sys
import tempfile

import numpy as np

from mc import knn as K
from mc.oracles import axioms
from mc.runner import Result, horizon, Horizon

ID = "C07"
TITLE = "no call modifies caller data; results depend only on argument values"
RULE = ("(1) per metric: ALL call histories of length <= 3 over all ordered pairs (aliased pairs "
        "x is y included) of a pool of domain vectors containing exact zeros - after every call "
        "the pool must be bit-identical and the value equal to that of the same call on pristine "
        "copies; (2) per model kind x metric: breadth-first search over histories of "
        "{fit, predict(queries), predict(training matrix), get_distances, pre_compute_distance, "
        "metric on rows of the caller's matrix} with state = (pool bits, hidden-state digest, "
        "model digest) to fixpoint (depth bound 4): pool unchanged and each return value equal "
        "to its pristine reference on every transition; (3) two fresh models fitted on equal "
        "data, with arbitrary calls in between, have identical forests and predictions. "
        "Non-trivial = the history has >= 2 calls (an earlier call could have influenced it)")
ASSUMPTIONS = [
    "arrays are C-contiguous float64 (and int64 label/index arrays); read-only and strided "
    "views are not exercised",
    "hidden state the digest cannot see (closures, C-level state) is covered only by the "
    "literal histories of length <= 3 / depth <= 4",
]
KINDS = ["SupervisedOPF", "SemiSupervisedOPF", "KNNSupervisedOPF", "UnsupervisedOPF"]
MODEL_METRICS = {"quick": ["log_squared_euclidean", "canberra"],
                 "thorough": ["log_squared_euclidean", "canberra", "jaccard", "bray_curtis",
                              "euclidean", "chi_squared", "hassanat", "squared_chord"]}


def bounds(tier):
    return {"metric_histories": "47 metrics x pool of 3 vectors (4 thorough) x all histories of "
            "length <= 3 over all ordered pairs",
            "model_bfs": "4 kinds x %s, depth <= 4" % MODEL_METRICS[tier],
            "fresh_twice": "4 kinds x metrics x 3 datasets x interleaved calls"}


def plan(tier, seed):
    shards = [("hist", name, tier) for name in axioms.NAMES]
    for kind in KINDS:
        for mt in MODEL_METRICS[tier]:
            shards.append(("bfs", kind, mt, tier))
            shards.append(("twice", kind, mt, tier))
    return shards


def warm():
    from mc.warm import warm_metrics
    warm_metrics()


# --------------------------------------------------------------------------
def bits(a):
    a = np.asarray(a)
    return (str(a.dtype), a.shape, a.tobytes())


def pool_bits(pool):
    return tuple(bits(a) for a in pool)


def val_repr(v):
    """Canonical, NaN-safe representation of a return value."""
    if isinstance(v, tuple):
        return tuple(val_repr(x) for x in v)
    if isinstance(v, list):
        return tuple(val_repr(x) for x in v)
    if isinstance(v, np.ndarray):
        return ("nd", v.shape, v.astype(float).tobytes())
    if v is None:
        return None
    try:
        return ("f", np.float64(v).tobytes())
    except Exception:
        return repr(v)


def hidden_digest():
    h = hashlib.sha1()
    for name in sorted(sys.modules):
        if not (name == "opfython" or name.startswith("opfython.")):
            continue
        mod = sys.modules[name]
        for attr in sorted(vars(mod)):
            if attr.startswith("__"):
                continue
            val = vars(mod)[attr]
            _dig(h, name + "." + attr, val)
            if isinstance(val, type) and getattr(val, "__module__", "").startswith("opfython"):
                for ca in sorted(vars(val)):
                    if not ca.startswith("__"):
                        _dig(h, name + "." + attr + "." + ca, vars(val)[ca])
    st = np.random.get_state()
    h.update(st[1].tobytes())
    h.update(repr(st[2:]).encode())
    return h.hexdigest()


def _dig(h, label, val):
    if isinstance(val, np.ndarray):
        h.update(label.encode())
        h.update(val.tobytes())
    elif isinstance(val, (list, dict, set, frozenset, tuple, bytearray)):
        h.update(label.encode())
        h.update(repr(val).encode())
    elif isinstance(val, (int, float, str, bool)):
        h.update(label.encode())
        h.update(repr(val).encode())


def metric_pool(name, seed, tier):
    """Domain vectors containing exact zeros where the domain has them."""
    if name in axioms.R_CLASS or name == "hassanat":
        vs = [(0.0, 1.0, -2.0), (0.0, 3.0, 0.0), (0.5, 0.0, 0.25), (0.0, 0.0, 0.0)]
    else:
        vs = [(0.0, 1.0, 2.0), (0.0, 3.0, 0.0), (0.5, 0.25, 0.25), (0.0, 0.0, 1.0)]
    if seed:
        sc = [1.0, 0.5, 2.0, 3.0][seed % 4]
        vs = [tuple(sc * x for x in v) for v in vs]
    return vs[:3] if tier == "quick" else vs


def viol(check, prog, prob, sym):
    return {"check": check, "program": prog, "observed": prob,
            "allowed": "caller arrays bit-identical; value independent of history",
            "explanation": prob, "fingerprint": sym}


# --------------------------------------------------------------------------
# (1) metric call histories
# --------------------------------------------------------------------------
def run_history(name, vs, hist):
    """hist: list of (i, j).  Returns problem text or None."""
    import opfython.math.distance as D
    fn = D.DISTANCES[name]
    pool = [np.array(v, dtype=float) for v in vs]
    orig = pool_bits(pool)
    for step, (i, j) in enumerate(hist):
        # pristine reference of this call
        rx = np.array(vs[i], dtype=float)
        ry = rx if i == j else np.array(vs[j], dtype=float)
        try:
            ref = val_repr(fn(rx, ry))
        except Exception as ex:
            ref = "raised " + type(ex).__name__
        try:
            got = val_repr(fn(pool[i], pool[j]))
        except Exception as ex:
            got = "raised " + type(ex).__name__
        now = pool_bits(pool)
        if now != orig:
            ch = [k for k in range(len(pool)) if now[k] != orig[k]]
            return ("after call %d = %s(pool[%d], pool[%d]) the caller's vector(s) %s changed: "
                    "%s -> %s" % (step, name, i, j, ch, [list(vs[k]) for k in ch],
                                  [pool[k].tolist() for k in ch]), "caller vector modified")
        if got != ref:
            return ("call %d = %s(pool[%d], pool[%d]) returned a different value after the history "
                    "%s than on pristine copies of the same vectors" % (step, name, i, j, hist[:step]),
                    "value depends on history")
    return None, None


def shard_hist(shard, seed, res):
    _, name, tier = shard
    vs = metric_pool(name, seed, tier)
    ops = list(itertools.product(range(len(vs)), repeat=2))
    for L in (1, 2, 3):
        for hist in itertools.product(ops, repeat=L):
            r = run_history(name, vs, list(hist))
            res.evaluations += 1
            res.transitions += L
            res.traces += 1
            if L >= 2:
                res.nontrivial += 1
            if r[0]:
                res.violations.append(viol("metric-history",
                                           {"part": "hist", "metric": name, "pool": [list(v) for v in vs],
                                            "history": [list(h) for h in hist]}, r[0],
                                           "DISTANCES[decorated]: " + r[1] if name in axioms.DECORATED
                                           else "DISTANCES[%s]: %s" % (name, r[1])))
                if res.full:
                    return
                break  # longer histories of this length repeat the symptom
        else:
            continue
        break
    res.states += 1
    res.outcome((name, "hist"))
    res.sample({"metric": name, "pool": [list(v) for v in vs], "history": [[0, 1], [1, 1], [0, 1]]}, 1)


# --------------------------------------------------------------------------
# (2) model-operation BFS
# --------------------------------------------------------------------------
DATA = {
    "X": [[0.0, 0.0], [1.0, 0.0], [0.0, 2.0], [3.0, 3.0], [4.0, 3.0], [3.0, 0.0]],
    "Y": [0, 0, 0, 1, 1, 1],
    "Xu": [[2.0, 0.0], [0.0, 3.0]],
    "Xv": [[0.0, 1.0], [4.0, 4.0], [2.0, 0.0]],
    "Yv": [0, 1, 1],
    "Xq": [[0.0, 0.0], [2.0, 2.0], [0.0, 1.0], [5.0, 0.0]],
}


def make_world(seed):
    sc = [1.0, 0.5, 2.0, 3.0][seed % 4] if seed else 1.0
    w = {k: (np.array(v, dtype=float) * sc if k.startswith("X") else np.array(v, dtype=int))
         for k, v in DATA.items()}
    return w


WORLD_KEYS = ["X", "Y", "Xu", "Xv", "Yv", "Xq"]


def new_model(kind, metric):
    import opfython.models as M
    if kind == "KNNSupervisedOPF":
        return M.KNNSupervisedOPF(max_k=2, distance=metric)
    if kind == "UnsupervisedOPF":
        return M.UnsupervisedOPF(min_k=1, max_k=2, distance=metric)
    return getattr(M, kind)(distance=metric)


def model_digest(m):
    if m.subgraph is None:
        return None
    sg = m.subgraph
    parts = []
    for nd in sg.nodes:
        parts.append((float(nd.cost), int(nd.pred), int(nd.predicted_label), int(nd.label),
                      int(nd.status), float(nd.density), int(nd.root), int(nd.cluster_label),
                      nd.features.tobytes()))
    extra = tuple(getattr(sg, a, None) for a in ("best_k", "n_clusters", "constant", "density",
                                                  "min_density", "max_density"))
    return hashlib.sha1(repr((parts, list(sg.idx_nodes), extra)).encode()).hexdigest()


def apply_op(op, kind, metric, w, m, tmpdir):
    """Executes one real API call on world w / model m; returns value."""
    import opfython.math.general as g
    import opfython.math.distance as D
    if op == "fit":
        if kind == "SemiSupervisedOPF":
            m.fit(w["X"], w["Y"], w["Xu"])
        elif kind == "KNNSupervisedOPF":
            m.fit(w["X"], w["Y"], w["Xv"], w["Yv"])
        else:
            m.fit(w["X"], w["Y"])
        return None
    if op == "predict_q":
        return m.predict(w["Xq"])
    if op == "predict_train":
        return m.predict(w["X"])
    if op == "get_distances":
        return m.get_distances()
    if op == "pre_compute":
        path = os.path.join(tmpdir, "d.txt")
        g.pre_compute_distance(w["X"], path, metric)
        return np.loadtxt(path)
    if op == "metric_rows":
        return D.DISTANCES[metric](w["X"][0], w["X"][2])
    if op == "metric_alias":
        return D.DISTANCES[metric](w["Xq"][0], w["Xq"][0])
    raise ValueError(op)


OPS = ["fit", "predict_q", "predict_train", "get_distances", "pre_compute", "metric_rows",
       "metric_alias"]
NEEDS_FIT = {"predict_q", "predict_train", "get_distances"}


def run_ops(kind, metric, seed, hist, tmpdir, check=True, refs=None):
    """Replays a history on a pristine world.  Returns (problem, symptom,
    state_key, value of the last op)."""
    w = make_world(seed)
    orig = {k: bits(w[k]) for k in WORLD_KEYS}
    m = new_model(kind, metric)
    val = None
    for step, op in enumerate(hist):
        try:
            val = val_repr(apply_op(op, kind, metric, w, m, tmpdir))
        except Horizon:
            raise
        except Exception as ex:
            val = "raised %s" % type(ex).__name__
        if check:
            ch = [k for k in WORLD_KEYS if bits(w[k]) != orig[k]]
            if ch:
                return ("after %s %s on %s the caller's array(s) %s changed (e.g. %s)"
                        % (hist[:step + 1], kind, metric, ch, w[ch[0]].tolist()),
                        "caller array modified by %s" % op, None, val)
            if refs is not None and step == len(hist) - 1:
                ref = refs.get(op)
                if ref is not None and ref != val:
                    return ("%s.%s on %s returned a different result after the history %s than "
                            "from the pristine state" % (kind, op, metric, hist[:step]),
                            "result of %s depends on history" % op, None, val)
    fitted = m.subgraph is not None and bool(m.subgraph.trained)
    key = (tuple(sorted((k, hashlib.sha1(repr(bits(w[k])).encode()).hexdigest()) for k in WORLD_KEYS)),
           hidden_digest(), fitted, model_digest(m))
    return None, None, key, val


def shard_bfs(shard, seed, res):
    _, kind, metric, tier = shard
    tmpdir = tempfile.mkdtemp(prefix="c07-", dir="/var/tmp")
    try:
        # pristine references: value of each op after the minimal prerequisite
        refs = {}
        for op in OPS:
            pre = ["fit"] if op in NEEDS_FIT else []
            _, _, _, v = run_ops(kind, metric, seed, pre + [op], tmpdir, check=False)
            refs[op] = v
        depth = 4
        p, s, k0, _ = run_ops(kind, metric, seed, [], tmpdir)
        seen = {k0}
        frontier = collections.deque([([], k0)])
        while frontier:
            hist, key = frontier.popleft()
            res.states += 1
            fitted = key[2]
            for op in OPS:
                if op in NEEDS_FIT and not fitted:
                    continue
                h2 = hist + [op]
                with horizon(60.0):
                    prob, sym, k2, _ = run_ops(kind, metric, seed, h2, tmpdir, refs=refs)
                res.transitions += 1
                res.evaluations += 1
                res.traces += 1
                if len(h2) >= 2:
                    res.nontrivial += 1
                if prob:
                    res.violations.append(viol("model-history",
                                               {"part": "bfs", "kind": kind, "metric": metric,
                                                "history": h2, "seed": seed}, prob, "%s: %s" % (kind, sym)))
                    if res.full:
                        return
                    continue
                if k2 not in seen:
                    seen.add(k2)
                    if len(h2) < depth:
                        frontier.append((h2, k2))
                    else:
                        res.capped = res.capped or None
                        res.count("states_at_depth_bound")
        res.outcome((kind, metric, len(seen)))
        res.sample({"kind": kind, "metric": metric, "ops": OPS, "distinct_states": len(seen)}, 1)
    finally:
        import shutil
        shutil.rmtree(tmpdir, ignore_errors=True)


# --------------------------------------------------------------------------
# (3) fresh twice
# --------------------------------------------------------------------------
def observe_full(kind, m, w):
    out = [model_digest(m)]
    if kind == "UnsupervisedOPF":
        m.propagate_labels()
    out.append(val_repr(m.predict(w["Xq"].copy())))
    out.append(val_repr(m.predict(w["X"].copy())))
    return out


def run_twice(kind, metric, seed, between, tmpdir):
    w1 = make_world(seed)
    m1 = new_model(kind, metric)
    apply_op("fit", kind, metric, w1, m1, tmpdir)
    o1 = observe_full(kind, m1, w1)
    wb = make_world(seed + 1)
    mb = new_model(kind, metric)
    for op in between:
        try:
            apply_op(op, kind, metric, wb, mb, tmpdir)
        except Exception:
            pass
    w2 = make_world(seed)
    m2 = new_model(kind, metric)
    apply_op("fit", kind, metric, w2, m2, tmpdir)
    o2 = observe_full(kind, m2, w2)
    if o1 != o2:
        what = ["forest", "predictions on queries", "predictions on the training set"]
        diff = [what[i] for i in range(3) if o1[i] != o2[i]]
        return ("two fresh %s(%s) objects fitted on equal data differ in %s (calls in between: %s)"
                % (kind, metric, diff, between), "fresh fits differ")
    return None, None


def shard_twice(shard, seed, res):
    _, kind, metric, tier = shard
    tmpdir = tempfile.mkdtemp(prefix="c07-", dir="/var/tmp")
    try:
        betweens = [[]] + [list(p) for L in (1, 2) for p in itertools.product(
            ["fit", "predict_train", "metric_rows", "pre_compute"], repeat=L)
            if not (p[0] == "predict_train")]
        for b in betweens:
            try:
                with horizon(60.0):
                    prob, sym = run_twice(kind, metric, seed, b, tmpdir)
            except Horizon as hz:
                prob, sym = str(hz), "no termination"
            except Exception as ex:
                prob, sym = "raised %r" % (ex,), "raised %s" % type(ex).__name__
            res.evaluations += 1
            res.transitions += 2 + len(b)
            res.traces += 1
            res.states += 1
            res.nontrivial += 1
            if prob:
                res.violations.append(viol("fresh-twice", {"part": "twice", "kind": kind,
                                                            "metric": metric, "between": b, "seed": seed},
                                           prob, "%s: %s" % (kind, sym)))
                if res.full:
                    return
        res.outcome((kind, metric, "twice"))
    finally:
        import shutil
        shutil.rmtree(tmpdir, ignore_errors=True)


def run(shard, seed):
    res = Result()
    if shard[0] == "hist":
        shard_hist(shard, seed, res)
    elif shard[0] == "bfs":
        shard_bfs(shard, seed, res)
    else:
        shard_twice(shard, seed, res)
    return res


def replay(case):
    p = case["program"]
    seed = int(p.get("seed", 0))
    tmpdir = tempfile.mkdtemp(prefix="c07-", dir="/var/tmp")
    try:
        if p["part"] == "hist":
            r = run_history(p["metric"], [tuple(v) for v in p["pool"]],
                            [tuple(h) for h in p["history"]])
            if r[0]:
                return viol("metric-history", p, r[0], case.get("fingerprint"))
            return None
        if p["part"] == "bfs":
            kind, metric, hist = p["kind"], p["metric"], p["history"]
            refs = {}
            op = hist[-1]
            pre = ["fit"] if op in NEEDS_FIT else []
            refs[op] = run_ops(kind, metric, seed, pre + [op], tmpdir, check=False)[3]
            prob, sym, _, _ = run_ops(kind, metric, seed, hist, tmpdir, refs=refs)
            if prob:
                return viol("model-history", p, prob, "%s: %s" % (kind, sym))
            return None
        prob, sym = run_twice(p["kind"], p["metric"], seed, p["between"], tmpdir)
        if prob:
            return viol("fresh-twice", p, prob, "%s: %s" % (p["kind"], sym))
        return None
    finally:
        import shutil
        shutil.rmtree(tmpdir, ignore_errors=True)
