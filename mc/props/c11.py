"""C11 - results are invariant to training order and to monotone rescaling of
the metric.  Explorer E, metamorphic oracle: every permutation of every
tie-free training set x the five mutually monotone Euclidean identifiers."""
import itertools

import numpy as np

from mc import enum as E
from mc import sup
from mc.oracles import forest as F
from mc.props import c01
from mc.runner import Result, horizon, Horizon

ID = "C11"
TITLE = "invariance to training order and monotone rescaling"
FAMILY = ["euclidean", "squared_euclidean", "average_euclidean", "log_euclidean",
          "log_squared_euclidean"]
RULE = ("every subset of size n (3..5, thorough 6) of an integer point pool whose squared "
        "distances (among training points and to each retained query) are pairwise distinct "
        "and non-zero, x every labeling with >=2 classes, x ALL n! training orders, x the five "
        "Euclidean-family identifiers; plus every strict edge ordering of 4-node matrices with "
        "all node orders via index arrays; compared per sample (tracked through the permutation): "
        "cost, prototype flag, assigned label, and every query prediction; across metrics: "
        "prototype flags, assigned labels, predictions; non-trivial = the permutation is not "
        "the identity or the metric is not the base metric (each comparison is a distinct run)")
ASSUMPTIONS = [
    "tie-free data only (the property's precondition); queries whose exhaustive minimisers "
    "carry more than one label under the base run are skipped and counted",
    "n <= 5 (quick) / 6 (thorough)",
]
POOL = [(0, 0), (1, 0), (0, 3), (5, 1), (2, 7), (9, 4), (6, 8)]
QUERIES = [(2, 2), (5, 4), (1, 6), (7, 3), (3, 1), (4, 6), (0, 1), (8, 8)]


# a second pool with negative coordinates: 9 of its pairs have a coordinate that cancels exactly
# (x_i = -y_i != 0), all 21 squared distances distinct
POOL2 = [(-5, -1), (-5, 1), (0, 2), (1, 2), (2, -2), (5, -6), (5, -2)]
QUERIES2 = [(-6, -2), (3, -1), (-1, -1), (2, 6), (0, 0), (-2, 2), (4, 1), (-5, 5)]


def pool(seed, which=0):
    if which == 1 and not seed:
        return POOL2, QUERIES2
    if which == 1:
        pts, qs = pool(seed, 0)
        return [(x - 6, y - 5) for x, y in pts], [(x - 6, y - 5) for x, y in qs]
    if not seed:
        return POOL, QUERIES
    import random
    rnd = random.Random(2468 + seed)
    pts = set()
    while len(pts) < 7:
        pts.add((rnd.randint(0, 11), rnd.randint(0, 11)))
    qs = set()
    while len(qs) < 8:
        q = (rnd.randint(0, 11), rnd.randint(0, 11))
        if q not in pts:
            qs.add(q)
    return sorted(pts), sorted(qs)


def sq(a, b):
    return (a[0] - b[0]) ** 2 + (a[1] - b[1]) ** 2


def bounds(tier):
    return {"n": [3, 4, 5] + ([6] if tier == "thorough" else []),
            "pool_points": "7 non-negative integer points; 7 points with negative coordinates (n<=4; "
                           "thorough all n)", "query_pool": 8, "metrics": FAMILY,
            "all_permutations_for": FAMILY if tier == "thorough" else FAMILY[:1] + FAMILY[-1:],
            "matrix_mode": "720 strict orders of K4 x 24 node orders x L(4); 3+1 query"}


def plan(tier, seed):
    shards = []
    ns = [3, 4, 5] + ([6] if tier == "thorough" else [])
    for n in ns:
        for ci, comb in enumerate(itertools.combinations(range(7), n)):
            shards.append(("pts", n, ci, 0))
            if n <= 4 or tier == "thorough":
                shards.append(("pts", n, ci, 1))
    for a, b in E.chunks(720, 60):
        shards.append(("strict4", a, b))
    # the same point sets at a tiny scale (squared distances ~1e-22): only the three identifiers
    # whose transforms stay exactly monotone in floating point are compared there
    for n in (3, 4):
        for ci, comb in enumerate(itertools.combinations(range(7), n)):
            shards.append(("pts", n, ci, 2))
    # each identifier must be a non-decreasing function of the Euclidean distance over a fine
    # multiplicative ladder of distances (ratio 1.0001, 1e-9 .. 1e9)
    for mt in FAMILY:
        for part in range(8):
            shards.append(("ladder", mt, part))
    shards.sort(key=lambda s: -(s[1] if s[0] == "pts" else 4))
    return shards


warm = c01.warm


def groups(shard, seed, tier="quick"):
    """yields (base program, list of variant programs)"""
    if shard[0] == "pts":
        _, n, ci, which = shard
        tiny = which == 2
        pts, qs = pool(seed, 0 if tiny else which)
        if tiny:
            pts = [(x * 1e-11, y * 1e-11) for x, y in pts]
            qs = [(x * 1e-11, y * 1e-11) for x, y in qs]
        comb = list(itertools.combinations(range(7), n))[ci]
        P = [pts[i] for i in comb]
        ds = [sq(a, b) for a, b in itertools.combinations(P, 2)]
        if len(set(ds)) != len(ds) or 0 in ds:
            return
        Q = [q for q in qs if len(set(ds + [sq(a, q) for a in P])) == len(ds) + n
             and all(sq(a, q) != 0 for a in P)]
        full = FAMILY if tier == "thorough" else [FAMILY[0], FAMILY[-1]]
        fam = FAMILY
        if tiny:
            fam = full = FAMILY[:3]      # euclidean, squared_euclidean, average_euclidean
        for lab in E.labelings(n):
            lab = E.rename_classes(lab, seed)
            base = {"mode": "features", "P": [list(p) for p in P], "labels": list(lab),
                    "queries": [list(q) for q in Q], "perm": list(range(n)), "metric": FAMILY[0]}
            variants = []
            for perm in itertools.permutations(range(n)):
                for mt in fam:
                    if perm == tuple(range(n)) and mt == FAMILY[0]:
                        continue
                    if perm != tuple(range(n)) and mt not in full:
                        continue
                    v = dict(base)
                    v["perm"] = list(perm)
                    v["metric"] = mt
                    variants.append(v)
            if n == 4 and which == 0:
                # the same runs on an object with an interrupted earlier fit / after a save-load round trip
                for perm in ((0, 1, 2, 3), (3, 1, 0, 2)):
                    for k in range(1, 2 * n * n):
                        v = dict(base)
                        v["perm"] = list(perm)
                        v["crash_before"] = k
                        variants.append(v)
                for mt in FAMILY:
                    v = dict(base)
                    v["metric"] = mt
                    v["via_load"] = True
                    variants.append(v)
                # another classifier (with another identifier of the family) is constructed between
                # this one's fit and its predict
                for i, mt in enumerate(FAMILY):
                    for j in range(len(FAMILY)):
                        if j != i:
                            v = dict(base)
                            v["metric"] = mt
                            v["built_later"] = FAMILY[j]
                            variants.append(v)
            yield base, variants
    else:
        _, a, b = shard
        table = E.value_table(seed, 6)
        for ranks in list(itertools.permutations(range(6)))[a:b]:
            W = E.matrix_from_ranks(4, ranks, table).tolist()
            for lab in E.labelings(4):
                lab = E.rename_classes(lab, seed)
                base = {"mode": "pre", "W": W, "labels": list(lab), "train": [0, 1, 2, 3],
                        "queries": [], "perm": [0, 1, 2, 3]}
                variants = []
                for perm in itertools.permutations(range(4)):
                    if perm != (0, 1, 2, 3):
                        v = dict(base)
                        v["perm"] = list(perm)
                        variants.append(v)
                yield base, variants
            for q in range(4):
                train = [i for i in range(4) if i != q]
                for lab in E.labelings(3):
                    lab = E.rename_classes(lab, seed)
                    base = {"mode": "pre", "W": W, "labels": list(lab), "train": train,
                            "queries": [q], "perm": [0, 1, 2]}
                    variants = []
                    for perm in itertools.permutations(range(3)):
                        if perm != (0, 1, 2):
                            v = dict(base)
                            v["perm"] = list(perm)
                            variants.append(v)
                    yield base, variants


def execute(v):
    """Run one variant on the real code; returns per-ORIGINAL-sample state and
    predictions, plus the label-ambiguity of each query under this run."""
    perm = v["perm"]
    n = len(perm)
    lab = [v["labels"][i] for i in perm]
    if v["mode"] == "features":
        X = [v["P"][i] for i in perm]
        prog = {"model": "SupervisedOPF", "mode": "features", "X": X, "metric": v["metric"],
                "labels": lab}
        model = None
        if v.get("crash_before"):
            # the object first ran a fit (on other data of the same size) interrupted at a metric call
            model = sup.fresh_model("SupervisedOPF", v["metric"], False)
            prev = {"model": "SupervisedOPF", "mode": "features", "metric": v["metric"],
                    "X": [[float(7 * i % 5), float(i)] for i in range(n)], "labels": [i % 2 for i in range(n)],
                    "fault_at": int(v["crash_before"])}
            try:
                sup.fit_program(prev, model=model)
            except Exception:
                pass
        if v.get("built_later"):
            model = sup.fresh_model("SupervisedOPF", v["metric"], False)
        m, Wd = sup.fit_program(prog, model=model)
        if v.get("built_later"):
            bystander = sup.fresh_model("SupervisedOPF", v["built_later"], False)  # noqa: F841 (kept alive)
        if v.get("via_load"):
            # the classifier is saved and loaded into a freshly constructed default object
            import os
            import shutil
            import tempfile
            from mc.runner import scratch_dir
            from opfython.models import SupervisedOPF
            d = tempfile.mkdtemp(prefix="c11-", dir=scratch_dir())
            try:
                path = os.path.join(d, "m.pkl")
                m.save(path)
                m = SupervisedOPF()
                m.load(path)
            finally:
                shutil.rmtree(d, ignore_errors=True)
        preds = [int(p) for p in m.predict(np.array(v["queries"], dtype=float))] if v["queries"] else []
        qd = [[float(m.distance_fn(nd.features.copy(), np.array(q, dtype=float)))
               for nd in m.subgraph.nodes] for q in v["queries"]]
    else:
        I = [v["train"][i] for i in perm]
        prog = {"model": "SupervisedOPF", "mode": "pre", "W": v["W"], "labels": lab, "I_train": I}
        m, Wd = sup.fit_program(prog)
        preds = [int(p) for p in m.predict(np.zeros((len(v["queries"]), 1)),
                                           I_val=np.array(v["queries"], dtype=int))] if v["queries"] else []
        qd = [[float(v["W"][i][q]) for i in I] for q in v["queries"]]
    nodes = m.subgraph.nodes
    state = {}
    for pos in range(n):
        nd = nodes[pos]
        state[perm[pos]] = (float(nd.cost), int(nd.status), int(nd.predicted_label))
    costs = [float(nd.cost) for nd in nodes]
    plab = [int(nd.predicted_label) for nd in nodes]
    amb = [len(F.acceptable_labels(costs, plab, d)[0]) > 1 for d in qd]
    return state, preds, amb


def compare(base, bres, v, res=None):
    st0, pr0, amb0 = bres
    try:
        st, pr, amb = execute(v)
    except Horizon:
        raise
    except Exception as ex:
        return viol(base, v, "variant raised %r" % (ex,), "raised")
    same_metric = v.get("metric") == base.get("metric")
    for i in sorted(st0):
        c0, s0, l0 = st0[i]
        c1, s1, l1 = st[i]
        if s0 != s1:
            return viol(base, v, "sample %d is %sa prototype in the base run but %sa prototype after "
                        "%s" % (i, "" if s0 else "not ", "" if s1 else "not ", describe(base, v)),
                        "prototype status changed")
        if l0 != l1:
            return viol(base, v, "sample %d is assigned label %d in the base run but %d after %s"
                        % (i, l0, l1, describe(base, v)), "assigned label changed")
        if same_metric and c0 != c1:
            return viol(base, v, "sample %d has cost %r in the base run but %r after %s"
                        % (i, c0, c1, describe(base, v)), "cost changed")
    for qi, (a, b) in enumerate(zip(pr0, pr)):
        if amb0[qi] or amb[qi]:
            if res is not None:
                res.skip("query with label-ambiguous minimisers")
            continue
        if a != b:
            return viol(base, v, "query %r is predicted %d in the base run but %d after %s"
                        % (base["queries"][qi], a, b, describe(base, v)), "prediction changed")
    return None


def describe(base, v):
    parts = []
    if v["perm"] != base["perm"]:
        parts.append("permuting the training order to %s" % v["perm"])
    if v.get("crash_before"):
        parts.append("an earlier fit on the same object interrupted at its metric call %d" % v["crash_before"])
    if v.get("via_load"):
        parts.append("saving and loading into a default object")
    if v.get("built_later"):
        parts.append("constructing another classifier with distance=%r between fit and predict" % v["built_later"])
    if v.get("metric") != base.get("metric"):
        parts.append("switching the metric %s -> %s" % (base.get("metric"), v.get("metric")))
    return " and ".join(parts) or "no change"


def viol(base, v, prob, sym):
    prog = {"base": base, "variant": v}
    return {"check": "metamorphic", "program": prog, "observed": prob,
            "allowed": "identical per-sample state and predictions", "explanation": prob,
            "fingerprint": "SupervisedOPF order/rescale invariance: " + sym}


def ladder_case(prog):
    import opfython.math.distance as D
    fn = D.DISTANCES[prog["metric"]]
    d1, d2 = prog["d1"], prog["d2"]
    dim = prog.get("dim", 1)
    z = np.zeros(dim)
    a = float(fn(z.copy(), np.full(dim, d1 / dim ** 0.5)))
    b = float(fn(z.copy(), np.full(dim, d2 / dim ** 0.5)))
    if not (b >= a) or a != a or b != b:
        return viol(prog, prog, "%s is not a non-decreasing function of the Euclidean distance: at distance "
                    "%r it is %r, at the larger distance %r it is %r" % (prog["metric"], d1, a, d2, b),
                    "metric not monotone in the Euclidean distance")
    return None


def run_ladder(shard, seed, res):
    import math
    _, metric, part = shard
    ratio = 1.0001
    lo, hi = 1e-9, 1e9
    total = int(math.log(hi / lo) / math.log(ratio))
    per = total // 8 + 1
    start = lo * ratio ** (part * per) * (1.0 + 0.37e-4 * (seed % 3))
    import opfython.math.distance as D
    fn = D.DISTANCES[metric]
    z = np.zeros(1)
    prev_d, prev_v = None, None
    d = start
    x = np.zeros(1)
    for i in range(per + 1):
        x[0] = d
        v = float(fn(z, x))
        res.transitions += 1
        if prev_v is not None:
            res.evaluations += 1
            res.traces += 1
            res.nontrivial += 1
            if not (v >= prev_v):
                vv = ladder_case({"kind": "ladder", "metric": metric, "d1": prev_d, "d2": d})
                if vv:
                    res.violations.append(vv)
                    if res.full:
                        break
        prev_d, prev_v = d, v
        d *= ratio
    res.states += per
    res.outcome((metric, part))
    res.sample({"kind": "ladder", "metric": metric, "d1": start, "d2": start * ratio}, 1)
    return res


def run(shard, seed):
    import os
    tier = os.environ.get("_C11_TIER", "quick")
    res = Result()
    if shard[0] == "ladder":
        return run_ladder(shard, seed, res)
    first = True
    for base, variants in groups(shard, seed, tier):
        try:
            with horizon(60.0):
                h0 = sup.construction_history()
                bres = execute(base)
                res.transitions += 1
                res.states += 1
                for v in variants:
                    h1 = sup.construction_history()
                    viol_ = compare(base, bres, v, res)
                    if viol_ and (len(h0) > 1 or len(h1) > 1):
                        viol_["program"]["constructed_before"] = [h0, h1]
                    res.transitions += 1
                    res.evaluations += 1
                    res.traces += 1
                    res.nontrivial += 1
                    if viol_:
                        res.violations.append(viol_)
                        if res.full:
                            break
                res.outcome((len(base["perm"]), tuple(sorted(bres[0].items())), tuple(bres[1])))
        except Horizon as hz:
            res.violations.append(viol(base, base, str(hz), "no termination"))
        except Exception as ex:
            res.violations.append(viol(base, base, "base run raised %r" % (ex,), "raised"))
        if first:
            res.sample({"base": base, "n_variants": len(variants)}, 1)
            first = False
        if res.full:
            break
    return res


def plan_wrapper(tier):
    import os
    os.environ["_C11_TIER"] = tier


_plan = plan


def plan(tier, seed):  # noqa: F811  (records the tier for the workers, which fork after plan())
    plan_wrapper(tier)
    return _plan(tier, seed)


def replay(case):
    p = case["program"]
    if "base" in p and isinstance(p["base"], dict) and p["base"].get("kind") == "ladder":
        return ladder_case(p["base"])
    hist = p.get("constructed_before")
    if hist:
        # the objects the exploring process had constructed before the base run / before the variant
        sup.rebuild_history(hist[0])
    bres = execute(p["base"])
    if hist:
        sup.rebuild_history(hist[1])
    out = compare(p["base"], bres, p["variant"])
    if out and p.get("constructed_before"):
        out["program"]["constructed_before"] = p["constructed_before"]
    return out
