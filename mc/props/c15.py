"""C15 - semi-supervised training extends the optimum-path forest to the
unlabeled samples.  Explorer E."""
from mc import enum as E
from mc import sup
from mc.oracles import forest as F
from mc.props import c01, c02
from mc.runner import Result, horizon, Horizon

ID = "C15"
TITLE = "semi-supervised training extends the forest"
RULE = ("every weighted complete graph on n_l + n_u nodes (n_l in 2..4 labeled, n_u in 0..2 "
        "unlabeled, weights over an ordered alphabet of 2-3 values incl. zero; all weak edge "
        "orderings for 4 nodes) x every labeling of the labeled part with >=2 classes, as a "
        "pre-computed matrix, plus lattice point sequences under named metrics, plus API combinations "
        "(int64 labeled matrix with fractional unlabeled samples; an index array of dataset positions "
        "without pre-computed distances); oracle = "
        "minimax path costs on the FULL graph from prototypes that must be a labeled-MST "
        "boundary set, every sample conquered once, labels = true label of the root; with "
        "n_u = 0 the state must be identical to SupervisedOPF on the same input; non-trivial "
        "= some sample's optimum path runs through an unlabeled sample (cost strictly below "
        "the best path that avoids unlabeled intermediates) or n_u = 0 (differential case)")
ASSUMPTIONS = [
    "n_l <= 4, n_u <= 2; weight alphabets of 2-3 values beyond 4 nodes",
    "unlabeled rows are addressed as n_labeled + i in a pre-computed matrix (the library's convention)",
]

CONFIGS = {
    "quick": [(2, 0, 3), (3, 0, 3), (4, 0, 3), (2, 1, 3), (3, 1, 3), (2, 2, 3), (4, 1, 2), (3, 2, 2)],
    "thorough": [(2, 0, 3), (3, 0, 3), (4, 0, 3), (2, 1, 3), (3, 1, 3), (2, 2, 3), (4, 1, 3),
                 (3, 2, 3), (4, 2, 2)],
}
METRICS = {"quick": ["euclidean"], "thorough": ["euclidean", "manhattan", "log_squared_euclidean", "chebyshev"]}


def bounds(tier):
    return {"(n_labeled, n_unlabeled, weight_values)": CONFIGS[tier],
            "weak_orders": "WO(4) as 2+2 and 3+1",
            "features": "P(3 labeled + 1 unlabeled, {0,1,2}^2) x L(3) x %s" % METRICS[tier]}


def plan(tier, seed):
    shards = []
    for nl, nu, m in CONFIGS[tier]:
        n = nl + nu
        ng = E.n_graphs(n, m)
        for a, b in E.chunks(ng, max(16, 6000 // len(E.labelings(nl)) // 4)):
            shards.append(("g", nl, nu, m, a, b))
    for a, b in E.chunks(4683, 400):
        shards.append(("wo", 2, 2, a, b))
        shards.append(("wo", 3, 1, a, b))
    for mt in METRICS[tier]:
        for a, b in E.chunks(E.n_sequences(9, 4), 500):
            shards.append(("feat", 3, 1, mt, a, b))
    # API combinations: integer-typed labeled matrix with fractional unlabeled samples, and an
    # index array (dataset positions, colliding with the ids given to unlabeled samples) without
    # pre-computed distances
    for a, b in E.chunks(E.n_sequences(4, 5), 128):
        shards.append(("api", 3, 2, "euclidean", a, b))
    for a, b in E.chunks(E.n_graphs(4, 3), 250):
        shards.append(("emb0", 4, 3, a, b))
    shards.append(("emb0", 3, 3, 0, 27))
    # deep forests: two labeled samples and a chain of unlabeled ones with growing gaps (each is reached
    # through the previous one), 3..30 of them, in ascending, descending and interleaved row order
    # no unlabeled samples, the empty set spelt as [], (), np.array([]) and np.empty((0, d))
    shards.append(("empty", "1d"))
    shards.append(("empty", "2d"))
    shards.append(("chain", 3, 16))
    shards.append(("chain", 16, 31))
    return shards


def warm():
    c01.warm()
    from mc.warm import warm_dtypes
    warm_dtypes(["euclidean"])


def programs(shard, seed):
    kind = shard[0]
    if kind == "g":
        _, nl, nu, m, a, b = shard
        n = nl + nu
        table = E.value_table(seed, m, zero=True)
        for gi in range(a, b):
            W = E.matrix_from_ranks(n, E.graph_ranks(n, m, gi), table).tolist()
            for lab in E.labelings(nl):
                yield {"model": "SemiSupervisedOPF", "mode": "pre", "W": W,
                       "labels": list(E.rename_classes(lab, seed)), "n_unlabeled": nu}
    elif kind == "wo":
        _, nl, nu, a, b = shard
        n = nl + nu
        table = E.value_table(seed, 6, zero=(seed % 2 == 1))
        for ranks in c01.weak_orders(n)[a:b]:
            W = E.matrix_from_ranks(n, ranks, table).tolist()
            for lab in E.labelings(nl):
                yield {"model": "SemiSupervisedOPF", "mode": "pre", "W": W,
                       "labels": list(E.rename_classes(lab, seed)), "n_unlabeled": nu}
    elif kind == "empty":
        pts = E.lattice(shard[1], seed)
        nseq = E.n_sequences(len(pts), 3)
        for si in range(0, nseq, 1 if shard[1] == "1d" else 7):
            seq = E.sequence_at(len(pts), 3, si)
            X = [list(pts[i]) for i in seq]
            for lab in E.labelings(3):
                for sp in ("list", "tuple", "array1d", "empty2d"):
                    yield {"model": "SemiSupervisedOPF", "mode": "features", "X": X, "metric": "euclidean",
                           "labels": list(E.rename_classes(lab, seed)), "n_unlabeled": 0, "empty_as": sp}
    elif kind == "chain":
        _, a, b = shard
        sc = [1.0, 0.5, 2.0, 3.0][seed % 4] if seed else 1.0
        for nu in range(a, b):
            xs, x = [], 0.0
            for i in range(nu):
                x += 1.0 + 0.1 * i
                xs.append(x * sc)
            orders = [xs, xs[::-1], xs[::2] + xs[1::2]]
            for o in orders:
                for lab in ([1, 0], [0, 1], [3, 7]):
                    yield {"model": "SemiSupervisedOPF", "mode": "features", "metric": "euclidean",
                           "X": [[-1.0 * sc], [0.0]] + [[v] for v in o], "labels": lab, "n_unlabeled": nu}
    elif kind == "emb0":
        # empty unlabeled set AND a non-identity index array into a larger pre-computed matrix
        _, nl, m, a, b = shard
        table = E.value_table(seed, m, zero=True)
        I = c01.embedding(nl, seed)
        for gi in range(a, b):
            W = c01.embed(E.matrix_from_ranks(nl, E.graph_ranks(nl, m, gi), table), I, table)
            for lab in E.labelings(nl):
                yield {"model": "SemiSupervisedOPF", "mode": "pre", "W": W, "I_train": I,
                       "labels": list(E.rename_classes(lab, seed)), "n_unlabeled": 0}
    elif kind == "api":
        _, nl, nu, metric, a, b = shard
        base = [(0.0,), (1.0,), (2.0,), (3.0,)]
        frac = [(0.5,), (1.5,), (2.5,), (3.9,)]
        for si in range(a, b):
            seq = E.sequence_at(4, nl + nu, si)
            X = [list(base[i]) for i in seq[:nl]] + [list(frac[i]) for i in seq[nl:]]
            for lab in E.labelings(nl):
                for variant in ({"labeled_dtype": "int64"}, {"I_train": [0, nl + 1, nl][:nl]},
                                {"labeled_dtype": "int64", "I_train": [nl, 0, nl + 1][:nl]}):
                    p = {"model": "SemiSupervisedOPF", "mode": "features", "X": X, "metric": metric,
                         "labels": list(E.rename_classes(lab, seed)), "n_unlabeled": nu}
                    p.update(variant)
                    yield p
    else:
        _, nl, nu, metric, a, b = shard
        pts = E.lattice("2d", seed)
        for si in range(a, b):
            seq = E.sequence_at(len(pts), nl + nu, si)
            X = [list(pts[i]) for i in seq]
            for lab in E.labelings(nl):
                yield {"model": "SemiSupervisedOPF", "mode": "features", "X": X, "metric": metric,
                       "labels": list(E.rename_classes(lab, seed)), "n_unlabeled": nu}


def run_case(prog, res=None, model=None):
    try:
        m, Wd = sup.fit_program(prog, model=model)
        obs = sup.observe(m)
    except Horizon:
        raise
    except Exception as ex:
        return viol(prog, "fit raised %r" % (ex,), "fit raised")
    lab = tuple(prog["labels"])
    nl, nu = len(lab), int(prog["n_unlabeled"])
    n = nl + nu
    M = F.minimax_closure(Wd)

    def oracle(_, S):
        return [0.0 if t in S else min(M[s][t] for s in S) for t in range(n)]

    prob, sym = sup.forest_problem(Wd, lab, nl, obs, oracle)
    if prob:
        return viol(prog, prob, sym, obs)
    nodes = obs["nodes"]
    S = frozenset(i for i in range(n) if nodes[i]["status"] == 1)
    ew = [Wd[a][b] for a, b in E.edges(nl)]
    fam = {c02._boundary(nl, int(ti), lab) for ti in F.mst_indices(nl, ew)}
    if S not in fam:
        return viol(prog, "prototypes %s are not the class-boundary endpoints of a minimum "
                    "spanning tree of the LABELED samples (allowed %s)"
                    % (sorted(S), sorted(sorted(x) for x in fam)), "prototypes not from labeled MST", obs)
    if nu == 0:
        sp = dict(prog)
        sp["model"] = "SupervisedOPF"
        sp.pop("n_unlabeled")
        try:
            ms, _ = sup.fit_program(sp)
            obs_s = sup.observe(ms)
        except Horizon:
            raise
        except Exception as ex:
            return viol(prog, "SupervisedOPF.fit raised %r" % (ex,), "supervised fit raised")
        # the stored true-label field is not part of the forest: semi-supervised
        # training deliberately overwrites it with the assigned label
        def forest_only(o):
            return ([{k: v for k, v in nd.items() if k != "label"} for nd in o["nodes"]],
                    o["idx_nodes"], o["trained"])
        if forest_only(obs_s) != forest_only(obs):
            return viol(prog, "with an empty unlabeled set the forest differs from supervised "
                        "training on the labeled set: %r vs %r" % (obs, obs_s),
                        "differs from supervised", obs)
    if res is not None:
        nt = nu == 0
        if not nt:
            # optimum path uses an unlabeled intermediate
            Wl = [[Wd[a][b] for b in range(nl)] for a in range(nl)]
            Ml = F.minimax_closure(Wl)
            for t in range(nl):
                if t not in S and min(Ml[s][t] for s in S) > nodes[t]["cost"]:
                    nt = True
                    break
        if nt:
            res.nontrivial += 1
        res.outcome((nl, nu, tuple(nd["pred"] for nd in nodes), tuple(nd["plabel"] for nd in nodes)))
    return None


def viol(prog, prob, sym, obs=None):
    return {"check": "semi-forest", "program": prog, "observed": obs if obs else prob,
            "allowed": "optimum-path forest over all samples rooted at labeled-MST prototypes",
            "explanation": prob, "fingerprint": "SemiSupervisedOPF.fit: " + sym}


_PREV = {}


def _key(prog):
    return sup.cache_key(prog) if prog["model"] in ("SupervisedOPF", "SemiSupervisedOPF") else None


def run(shard, seed):
    res = Result()
    k = 0
    for prog in programs(shard, seed):
        try:
            with horizon(10.0):
                v = run_case(prog, res)
        except Horizon as hz:
            v = viol(prog, str(hz), "no termination")
        res.evaluations += 1
        res.states += 1
        res.traces += 1
        res.transitions += 1 if prog["n_unlabeled"] else 2
        if k == 0:
            res.sample(prog, 1)
        k += 1
        if v:
            prev = _PREV.get(_key(prog)) if _key(prog) is not None else None
            sup.with_history(v, prev)
            res.violations.append(v)
            if res.full:
                break
        _PREV[_key(prog)] = prog
    return res


def replay(case):
    return sup.replay_with_history(run_case, case["program"])
