"""C20 - evaluation measures match their definitions and stay within bounds.
Explorer E over all (labels, predictions) vectors up to a length bound and all
small matrices; oracle = the statement's definitions in Fraction arithmetic."""
import itertools
from fractions import Fraction as F

import numpy as np

from mc.runner import Result, horizon, Horizon

ID = "C20"
TITLE = "evaluation measures match their definitions"
RULE = ("every pair (labels, preds) with K = 1..3 classes (thorough 4), length 1..5 (thorough 6), "
        "every class 0..K-1 present among the labels and predictions in 0..K-1, passed both as "
        "arrays and as lists: opf_accuracy, confusion_matrix, opf_accuracy_per_label and purity "
        "are compared with exact rational evaluations of the definitions in the statement; every "
        "matrix over a value alphabet with <= 4 rows and <= 2 columns for normalize (constant "
        "columns excluded); non-trivial = at least one prediction is wrong (labels != preds) / "
        "the matrix has >= 2 distinct rows")
ASSUMPTIONS = [
    "K <= 3 (4), length <= 5 (6); normalize on <= 4 x 2 matrices over 4 values",
    "float results are compared with the exact rational value at 1e-12 absolute",
]


def bounds(tier):
    return {"K": [1, 2, 3] + ([4] if tier == "thorough" else []),
            "length": "1..5" if tier == "quick" else "1..6 (K=4: 4..6)",
            "normalize": "all matrices over 4 values, rows 1..4, cols 1..2"}


def plan(tier, seed):
    shards = []
    for K in (1, 2, 3):
        for L in range(max(1, K), 6 if tier == "quick" else 7):
            labs = [l for l in itertools.product(range(K), repeat=L) if set(l) == set(range(K))]
            for a in range(0, len(labs), 40):
                shards.append(("m", K, L, a, a + 40))
    if tier == "thorough":
        for L in (4, 5, 6):
            labs = [l for l in itertools.product(range(4), repeat=L) if set(l) == set(range(4))]
            for a in range(0, len(labs), 40):
                shards.append(("m", 4, L, a, a + 40))
    for r in (1, 2, 3, 4):
        for c in (1, 2):
            shards.append(("n", r, c))
    return shards


def ref_measures(lab, pred, K):
    n = len(lab)
    s = F(0)
    for cl in range(K):
        nc = sum(1 for l in lab if l == cl)
        fp = sum(1 for l, p in zip(lab, pred) if p == cl and l != cl)
        fn = sum(1 for l, p in zip(lab, pred) if l == cl and p != cl)
        if n - nc > 0:
            s += F(fp, n - nc)
        s += F(fn, nc)
    acc = 1 - s / (2 * K)
    cm = [[sum(1 for l, p in zip(lab, pred) if l == i and p == j) for j in range(K)] for i in range(K)]
    recall = [F(cm[i][i], sum(cm[i])) for i in range(K)]
    pur = F(sum(max(cm[i][j] for i in range(K)) for j in range(K)), n)
    pure = all(len({l for l, p in zip(lab, pred) if p == j}) <= 1 for j in range(K))
    return acc, cm, recall, pur, pure


def measure_case(prog):
    import opfython.math.general as g
    lab, pred, K = prog["labels"], prog["preds"], prog["K"]
    acc, cm, recall, pur, pure = ref_measures(lab, pred, K)
    forms = [(np.array(lab), np.array(pred)), (list(lab), list(pred)), (np.array(lab), list(pred))]
    for fi, (la, pa) in enumerate(forms):
        try:
            a = float(g.opf_accuracy(la, pa))
        except Exception as ex:
            return "opf_accuracy raised %r" % (ex,), "opf_accuracy raised"
        if not abs(a - float(acc)) <= 1e-12:
            return "opf_accuracy = %r, the definition gives %s = %r" % (a, acc, float(acc)), "opf_accuracy value"
        if not (-1e-15 <= a <= 1 + 1e-15):
            return "opf_accuracy = %r outside [0, 1]" % a, "opf_accuracy range"
        if (a == 1.0) != (list(lab) == list(pred)):
            return "opf_accuracy = %r but all-correct is %s" % (a, list(lab) == list(pred)), "opf_accuracy == 1 iff all correct"
        try:
            c = np.asarray(g.confusion_matrix(la, pa), dtype=float)
        except Exception as ex:
            return "confusion_matrix raised %r" % (ex,), "confusion_matrix raised"
        if c.shape != (K, K) or c.tolist() != [[float(v) for v in r] for r in cm]:
            return "confusion_matrix = %s, counts are %s" % (c.tolist(), cm), "confusion_matrix counts"
        try:
            pl = [float(x) for x in g.opf_accuracy_per_label(la, pa)]
        except Exception as ex:
            return "opf_accuracy_per_label raised %r" % (ex,), "per-label raised"
        if len(pl) != K or any(abs(x - float(r)) > 1e-12 for x, r in zip(pl, recall)):
            return "opf_accuracy_per_label = %s, recalls are %s" % (pl, [str(r) for r in recall]), "per-label recall"
        try:
            pu = float(g.purity(la, pa))
        except Exception as ex:
            return "purity raised %r" % (ex,), "purity raised"
        if abs(pu - float(pur)) > 1e-12 or not (0 < pu <= 1 + 1e-15) or ((pu == 1.0) != pure):
            return "purity = %r, the definition gives %s (single-class groups: %s)" % (pu, pur, pure), "purity"
    return None, None


def normalize_case(prog):
    import opfython.math.general as g
    A = np.array(prog["matrix"], dtype=float)
    try:
        got = np.asarray(g.normalize(A.copy()), dtype=float)
    except Exception as ex:
        return "normalize raised %r" % (ex,), "normalize raised"
    r, c = A.shape
    for j in range(c):
        col = [F(x).limit_denominator(10 ** 9) for x in A[:, j]]
        mean = sum(col) / r
        var = sum((x - mean) ** 2 for x in col) / r
        if var == 0:
            continue
        std = float(var) ** 0.5
        for i in range(r):
            want = float(col[i] - mean) / std
            if not abs(got[i, j] - want) <= 1e-12 * max(1.0, abs(want)):
                return ("normalize(%s)[%d][%d] = %r, (value - column mean) / column std = %r"
                        % (A.tolist(), i, j, float(got[i, j]), want)), "normalize value"
    if got.shape != A.shape:
        return "normalize changed the shape", "normalize shape"
    return None, None


def run_case(prog):
    p, sym = (measure_case if prog["kind"] == "measures" else normalize_case)(prog)
    if p:
        return {"check": prog["kind"], "program": prog, "observed": p,
                "allowed": "value of the definition", "explanation": p,
                "fingerprint": "math.general: " + sym}
    return None


def run(shard, seed):
    res = Result()
    if shard[0] == "m":
        _, K, L, a, b = shard
        labs = [l for l in itertools.product(range(K), repeat=L) if set(l) == set(range(K))][a:b]
        for lab in labs:
            for pred in itertools.product(range(K), repeat=L):
                prog = {"kind": "measures", "K": K, "labels": list(lab), "preds": list(pred)}
                with horizon(10.0):
                    v = run_case(prog)
                res.evaluations += 1
                res.states += 1
                res.traces += 1
                res.transitions += 12
                if lab != pred:
                    res.nontrivial += 1
                if v:
                    res.violations.append(v)
                    if res.full:
                        return res
            res.outcome((K, L, lab[:3]))
        if labs:
            res.sample({"kind": "measures", "K": K, "labels": list(labs[0]), "preds": list(labs[0][::-1])}, 1)
    else:
        _, r, c = shard
        vals = [0.0, 1.0, 2.0, 3.0] if not seed else [0.0, 0.5 * seed, 1.25, -2.0]
        for cells in itertools.product(vals, repeat=r * c):
            M = [list(cells[i * c:(i + 1) * c]) for i in range(r)]
            prog = {"kind": "normalize", "matrix": M}
            v = run_case(prog)
            res.evaluations += 1
            res.states += 1
            res.traces += 1
            res.transitions += 1
            if len({tuple(x) for x in M}) >= 2:
                res.nontrivial += 1
            if v:
                res.violations.append(v)
                if res.full:
                    return res
        res.outcome(("n", r, c))
        res.sample(prog, 1)
    return res


def replay(case):
    return run_case(case["program"])
