"""C20 - evaluation measures match their definitions and stay within bounds.
Explorer E over all (labels, predictions) vectors up to a length bound and all
small matrices; oracle = the statement's definitions in Fraction arithmetic."""
import itertools
from fractions import Fraction as F

import numpy as np

from mc.runner import Result, horizon, Horizon

ID = "C20"
TITLE = "evaluation measures match their definitions"
RULE = ("every pair (labels, preds) with K = 1..3 classes (thorough 4), length 1..5 (thorough 6), "
        "every class 0..K-1 present among the labels and predictions in 0..K-1, passed both as "
        "arrays and as lists: opf_accuracy, confusion_matrix, opf_accuracy_per_label and purity "
        "are compared with exact rational evaluations of the definitions in the statement; every "
        "matrix over a value alphabet with <= 4 rows and <= 2 columns for normalize (constant "
        "columns excluded), also with columns offset by 1e8, -1e6, 1.6e9 (mean huge relative to the "
        "spread); two-call histories in which the caller overwrites its label array in place "
        "between evaluations; a sweep over many classes (K up to 300) x integer dtypes int8..int64 for "
        "the label / prediction arrays; non-trivial = at least one prediction is wrong (labels != preds) / "
        "the matrix has >= 2 distinct rows")
ASSUMPTIONS = [
    "K <= 3 (4), length <= 5 (6); normalize on <= 4 x 2 matrices over 4 values",
    "float results are compared with the exact rational value at 1e-12 absolute; normalize at 1e-9 "
    "relative plus the rounding allowance 16*eps*(|mean|+max|x|)/std of the two-pass formula",
]


def bounds(tier):
    return {"K": [1, 2, 3] + ([4] if tier == "thorough" else []),
            "length": "1..5" if tier == "quick" else "1..6 (K=4: 4..6)",
            "normalize": "all matrices over 4 values, rows 1..4, cols 1..2"}


def plan(tier, seed):
    shards = []
    for K in (1, 2, 3):
        for L in range(max(1, K), 6 if tier == "quick" else 7):
            labs = [l for l in itertools.product(range(K), repeat=L) if set(l) == set(range(K))]
            for a in range(0, len(labs), 40):
                shards.append(("m", K, L, a, a + 40))
    if tier == "thorough":
        for L in (4, 5, 6):
            labs = [l for l in itertools.product(range(4), repeat=L) if set(l) == set(range(4))]
            for a in range(0, len(labs), 40):
                shards.append(("m", 4, L, a, a + 40))
    for r in (1, 2, 3, 4):
        for c in (1, 2):
            shards.append(("n", r, c, 0))
    # columns whose mean is huge relative to their spread (cancellation-prone)
    for alpha in (1, 2, 3):
        for r in (2, 3, 4):
            shards.append(("n", r, 1, alpha))
        shards.append(("n", 3, 2, alpha))
    # columns of tiny magnitude (SI units): the formula is scale-free
    for alpha in (4, 5):
        for r in (2, 3, 4):
            shards.append(("n", r, 1, alpha))
        shards.append(("n", 3, 2, alpha))
    # the caller re-uses and overwrites its label array between two evaluations
    for L in (2, 3, 4):
        shards.append(("h", L))
    # many classes x narrow integer dtypes (index arithmetic must not wrap)
    for dt in ("int8", "uint8", "int16", "uint16", "int32", "int64"):
        shards.append(("k", dt))
    return shards


def ref_measures(lab, pred, K):
    n = len(lab)
    cm = [[0] * K for _ in range(K)]
    for l, p in zip(lab, pred):
        cm[l][p] += 1
    rows = [sum(r) for r in cm]
    cols = [sum(cm[i][j] for i in range(K)) for j in range(K)]
    s = F(0)
    for cl in range(K):
        nc = rows[cl]
        fp = cols[cl] - cm[cl][cl]
        fn = nc - cm[cl][cl]
        if n - nc > 0:
            s += F(fp, n - nc)
        s += F(fn, nc)
    acc = 1 - s / (2 * K)
    recall = [F(cm[i][i], rows[i]) for i in range(K)]
    pur = F(sum(max(cm[i][j] for i in range(K)) for j in range(K)), n)
    groups = {}
    for l, p in zip(lab, pred):
        groups.setdefault(p, set()).add(l)
    pure = all(len(g) <= 1 for g in groups.values())
    return acc, cm, recall, pur, pure


def measure_case(prog):
    import opfython.math.general as g
    lab, pred, K = prog["labels"], prog["preds"], prog["K"]
    acc, cm, recall, pur, pure = ref_measures(lab, pred, K)
    if prog.get("dtype"):
        dt = np.dtype(prog["dtype"])
        forms = [(np.array(lab, dtype=dt), np.array(pred, dtype=dt)),
                 (np.array(lab, dtype=dt), np.array(pred)), (np.array(lab), np.array(pred, dtype=dt))]
    else:
        forms = [(np.array(lab), np.array(pred)), (list(lab), list(pred)), (np.array(lab), list(pred))]
    for fi, (la, pa) in enumerate(forms):
        try:
            a = float(g.opf_accuracy(la, pa))
        except Exception as ex:
            return "opf_accuracy raised %r" % (ex,), "opf_accuracy raised"
        if not abs(a - float(acc)) <= 1e-12:
            return "opf_accuracy = %r, the definition gives %s = %r" % (a, acc, float(acc)), "opf_accuracy value"
        if not (-1e-15 <= a <= 1 + 1e-15):
            return "opf_accuracy = %r outside [0, 1]" % a, "opf_accuracy range"
        if (a == 1.0) != (list(lab) == list(pred)):
            return "opf_accuracy = %r but all-correct is %s" % (a, list(lab) == list(pred)), "opf_accuracy == 1 iff all correct"
        try:
            c = np.asarray(g.confusion_matrix(la, pa), dtype=float)
        except Exception as ex:
            return "confusion_matrix raised %r" % (ex,), "confusion_matrix raised"
        if c.shape != (K, K) or c.tolist() != [[float(v) for v in r] for r in cm]:
            return "confusion_matrix = %s, counts are %s" % (c.tolist(), cm), "confusion_matrix counts"
        try:
            pl = [float(x) for x in g.opf_accuracy_per_label(la, pa)]
        except Exception as ex:
            return "opf_accuracy_per_label raised %r" % (ex,), "per-label raised"
        if len(pl) != K or any(abs(x - float(r)) > 1e-12 for x, r in zip(pl, recall)):
            return "opf_accuracy_per_label = %s, recalls are %s" % (pl, [str(r) for r in recall]), "per-label recall"
        try:
            pu = float(g.purity(la, pa))
        except Exception as ex:
            return "purity raised %r" % (ex,), "purity raised"
        if abs(pu - float(pur)) > 1e-12 or not (0 < pu <= 1 + 1e-15) or ((pu == 1.0) != pure):
            return "purity = %r, the definition gives %s (single-class groups: %s)" % (pu, pur, pure), "purity"
    return None, None


def normalize_case(prog):
    import opfython.math.general as g
    A = np.array(prog["matrix"], dtype=float)
    try:
        got = np.asarray(g.normalize(A.copy()), dtype=float)
    except Exception as ex:
        return "normalize raised %r" % (ex,), "normalize raised"
    r, c = A.shape
    for j in range(c):
        col = [F(float(x)) for x in A[:, j]]            # a float is an exact rational
        mean = sum(col) / r
        var = sum((x - mean) ** 2 for x in col) / r
        if var == 0:
            continue
        std = float(var) ** 0.5
        for i in range(r):
            want = float(col[i] - mean) / std
            # rounding allowance of the two-pass formula itself: the column mean is rounded
            # to ~eps*|mean|, which the division by std amplifies
            slack = 16 * 2.2e-16 * (abs(float(mean)) + max(abs(float(x)) for x in col)) / std
            if not abs(got[i, j] - want) <= 1e-9 * max(1.0, abs(want)) + slack:
                return ("normalize(%s)[%d][%d] = %r, (value - column mean) / column std = %r"
                        % (A.tolist(), i, j, float(got[i, j]), want)), "normalize value"
    if got.shape != A.shape:
        return "normalize changed the shape", "normalize shape"
    return None, None


def history_case(prog):
    """Evaluate on a label array, let the caller overwrite that SAME array in place,
    evaluate again: the second result must be the definition on the new contents."""
    import opfython.math.general as g
    la = np.array(prog["labels1"])
    pa = np.array(prog["preds"])
    fns = [("opf_accuracy", g.opf_accuracy), ("confusion_matrix", g.confusion_matrix),
           ("opf_accuracy_per_label", g.opf_accuracy_per_label), ("purity", g.purity)]
    for name, fn in fns:
        la[:] = prog["labels1"]
        try:
            fn(la, pa)
            la[:] = prog["labels2"]
            got = np.asarray(fn(la, pa), dtype=float)
            want = np.asarray(fn(np.array(prog["labels2"]), np.array(prog["preds"])), dtype=float)
        except Exception as ex:
            return "%s raised %r" % (name, ex), "%s raised" % name
        if got.shape != want.shape or not np.array_equal(got, want):
            return ("%s(labels, preds) after the caller overwrote its label array in place (%s -> %s) "
                    "returned %s, a fresh evaluation of the same values gives %s"
                    % (name, prog["labels1"], prog["labels2"], got.tolist(), want.tolist())), \
                "%s depends on earlier calls" % name
    # and the fresh value itself is the definition (measure_case judges it)
    return measure_case({"kind": "measures", "K": 2, "labels": prog["labels2"], "preds": prog["preds"]})


def run_case(prog):
    fn = {"measures": measure_case, "normalize": normalize_case, "history": history_case}[prog["kind"]]
    p, sym = fn(prog)
    if p:
        return {"check": prog["kind"], "program": prog, "observed": p,
                "allowed": "value of the definition", "explanation": p,
                "fingerprint": "math.general: " + sym}
    return None


def run(shard, seed):
    res = Result()
    if shard[0] == "m":
        _, K, L, a, b = shard
        labs = [l for l in itertools.product(range(K), repeat=L) if set(l) == set(range(K))][a:b]
        for lab in labs:
            for pred in itertools.product(range(K), repeat=L):
                prog = {"kind": "measures", "K": K, "labels": list(lab), "preds": list(pred)}
                with horizon(10.0):
                    v = run_case(prog)
                res.evaluations += 1
                res.states += 1
                res.traces += 1
                res.transitions += 12
                if lab != pred:
                    res.nontrivial += 1
                if v:
                    res.violations.append(v)
                    if res.full:
                        return res
            res.outcome((K, L, lab[:3]))
        if labs:
            res.sample({"kind": "measures", "K": K, "labels": list(labs[0]), "preds": list(labs[0][::-1])}, 1)
    elif shard[0] == "n":
        _, r, c, alpha = shard
        vals = [0.0, 1.0, 2.0, 3.0] if not seed else [0.0, 0.5 * seed, 1.25, -2.0]
        if alpha in (4, 5):
            unit = {4: 1.6e-19, 5: 1.1e-26}[alpha]
            vals = [0.0, unit, 2.5 * unit, -3.0 * unit]
        elif alpha:
            base = {1: 1e8, 2: -1e6, 3: 1.6e9}[alpha]
            vals = [base + v for v in ([0.0, 1.0, 2.0, 3.0] if alpha != 3 else [0.0, 10.0, 20.0, 45.0])]
        for cells in itertools.product(vals, repeat=r * c):
            M = [list(cells[i * c:(i + 1) * c]) for i in range(r)]
            prog = {"kind": "normalize", "matrix": M}
            v = run_case(prog)
            res.evaluations += 1
            res.states += 1
            res.traces += 1
            res.transitions += 1
            if len({tuple(x) for x in M}) >= 2:
                res.nontrivial += 1
            if v:
                res.violations.append(v)
                if res.full:
                    return res
        res.outcome(("n", r, c, alpha))
        res.sample(prog, 1)
    elif shard[0] == "k":
        dt = shard[1]
        hi = int(np.iinfo(np.dtype(dt)).max)
        for K in (2, 3, 11, 12, 13, 16, 17, 20, 100, 127, 128, 181, 182, 183, 200, 255, 256, 257, 300):
            if K - 1 > hi:
                continue
            lab = list(range(K)) + [0, K - 1, K // 2]
            for sft in (0, 1, K - 1, K // 2):
                pred = [(l + sft) % K for l in lab]
                prog = {"kind": "measures", "K": K, "labels": lab, "preds": pred, "dtype": dt}
                v = run_case(prog)
                res.evaluations += 1
                res.states += 1
                res.traces += 1
                res.transitions += 12
                if sft:
                    res.nontrivial += 1
                if v:
                    v["fingerprint"] += " (narrow dtype / many classes)"
                    res.violations.append(v)
                    if res.full:
                        return res
            res.outcome(("k", dt, K))
        res.sample({"kind": "measures", "K": 17, "dtype": dt, "labels": "0..16 + [0, 16, 8]", "preds": "(label + 1) % 17"}, 1)
    elif shard[0] == "h":
        L = shard[1]
        labs = [l for l in itertools.product(range(2), repeat=L) if set(l) == {0, 1}]
        for l1 in labs:
            for l2 in labs:
                for pred in itertools.product(range(2), repeat=L):
                    prog = {"kind": "history", "labels1": list(l1), "labels2": list(l2), "preds": list(pred)}
                    v = run_case(prog)
                    res.evaluations += 1
                    res.states += 1
                    res.traces += 1
                    res.transitions += 8
                    if l1 != l2:
                        res.nontrivial += 1
                    if v:
                        res.violations.append(v)
                        if res.full:
                            return res
        res.outcome(("h", L))
        res.sample(prog, 1)
    return res


def replay(case):
    return run_case(case["program"])
