"""C12 - the k-NN graph and density estimate are exact.  Explorer E over
fresh subgraphs (all graphs / lattice sequences x k x k' x heights) and
explorer B over operation sequences {create_arcs, calculate_pdf,
eliminate_maxima_height, destroy_arcs} with a reference model in lock-step;
plus the end state of KNNSupervisedOPF.fit / UnsupervisedOPF.fit."""
import collections

import numpy as np

from mc import enum as E
from mc import knn as K
from mc.oracles import density as DN
from mc.runner import Result, horizon, Horizon

ID = "C12"
TITLE = "k-NN graph and density estimate are exact"
RULE = ("fresh KNNSubgraph on every weighted complete graph (zero weights in the alphabet; n<=4 "
        "with 3 values, n=5 with 2; plus alphabets straddling the 1e-5 fallback) and on every "
        "lattice point sequence under real metrics, for every k in 1..n+1, then every k' <= "
        "min(k, n-1) for the density estimate, then every height in {-1, 0, 0.5, 2, 2000}; "
        "explicit-state search (prefix replay, depth <= 4) over operation sequences "
        "create/pdf/eliminate/destroy from the fresh state with the reference tracking whether "
        "arcs exist; the subgraph state left by the KNN-supervised and unsupervised fits is "
        "checked against the same reference for best_k; direction-dependent metrics; one 300-sample "
        "instance per k. Non-trivial = the graph has tied "
        "distances, or k > n-1, or the sequence re-creates arcs after destroying them")
ASSUMPTIONS = [
    "create_arcs is only issued when no arcs exist (fresh or after destroy_arcs) and "
    "calculate_pdf only with k' <= number of neighbours present (the library's own usage)",
    "density values are compared with 1e-9 relative tolerance (summation order); sets whose "
    "unmapped densities are equal only up to rounding are skipped and counted",
    "n <= 5 samples",
]
HEIGHTS = [-1.0, 0.0, 0.5, 2.0, 2000.0]
# pearson / kullback_leibler are NOT symmetric: d(x_i, x_j) - the distance FROM sample i - is what counts
METRICS = {"quick": ["euclidean", "log_squared_euclidean", "pearson"],
           "thorough": ["euclidean", "log_squared_euclidean", "manhattan", "canberra", "chebyshev",
                        "pearson", "neyman"]}   # (kullback_leibler is negative off the simplex: outside the domain)
TINY = {"tiny": [0.0, 1e-6, 5e-6], "straddle": [0.0, 9e-6, 1.1e-5], "edge": [0.0, 0.00001, 2e-5],
        "near9": [1.0, 1.0 + 1e-9, 1.0 + 3e-9]}      # nearly equal densities are still different densities


def bounds(tier):
    return {"fresh": ["G(3,3,zero)", "G(4,3,zero)", "G(5,2,zero)", "G(4,3,zero) via a non-identity index array", "G(3,{0,1e-6,5e-6})",
                      "G(3,{0,9e-6,1.1e-5})", "P(3,{0,1,2}^2)", "P(4,{0..3})"]
            + (["G(5,3,zero)", "P(4,{0,1,2}^2)", "P(5,{0..3})"] if tier == "thorough" else []),
            "k": "1..n+1", "heights": HEIGHTS, "sequence_depth": 4 if tier == "quick" else 5,
            "sequence_graphs": "G(3,3,zero) all 27, every 8th of G(4,3,zero)",
            "fit_end_state": "P(3..4(5),{0..3}) x all k ranges x KNNSupervisedOPF/UnsupervisedOPF"}


def plan(tier, seed):
    shards = [("g", 3, 3, "zero", 0, 27), ("g", 3, 3, "tiny", 0, 27), ("g", 3, 3, "straddle", 0, 27),
              ("g", 3, 3, "edge", 0, 27),      # a largest distance of exactly 1e-5 does not fall back
              ("g", 3, 3, "near9", 0, 27)]
    for a, b in E.chunks(729, 100):
        shards.append(("g", 4, 3, "near9", a, b))
    for a, b in E.chunks(729, 50):
        shards.append(("g", 4, 3, "zero", a, b))
    for a, b in E.chunks(1024, 64):
        shards.append(("g", 5, 2, "zero", a, b))
    # the same graphs addressed through a non-identity index array into a larger matrix
    for a, b in E.chunks(729, 100):
        shards.append(("g", 4, 3, "zero-embedded", a, b))
    for mt in METRICS[tier]:
        for a, b in E.chunks(729, 100):
            shards.append(("feat", "2d", 3, mt, a, b))
        for a, b in E.chunks(256, 64):
            shards.append(("feat", "1d", 4, mt, a, b))
        if tier == "thorough":
            for a, b in E.chunks(6561, 300):
                shards.append(("feat", "2d", 4, mt, a, b))
            for a, b in E.chunks(1024, 64):
                shards.append(("feat", "1d", 5, mt, a, b))
    if tier == "thorough":
        for a, b in E.chunks(59049, 1000):
            shards.append(("g", 5, 3, "zero", a, b))
    # one large instance per k (sizes beyond 256 samples: small-integer caches, 8-bit counters)
    for k in (1, 3):
        shards.append(("big", 300, k))
    depth = 4 if tier == "quick" else 5
    for gi in range(27):
        shards.append(("seq", 3, 3, gi, depth))
    for gi in range(0, 729, 8 if tier == "quick" else 3):
        shards.append(("seq", 4, 3, gi, depth))
    for n in (3, 4) + ((5,) if tier == "thorough" else ()):
        tot = 4 ** n
        for a, b in E.chunks(tot, 32):
            shards.append(("fit", n, a, b))
    return shards


def warm():
    from mc.warm import warm_metrics
    warm_metrics()


# --------------------------------------------------------------------------
def build(prog):
    from opfython.subgraphs import KNNSubgraph
    import opfython.math.distance as D
    if prog["mode"] == "pre":
        W = np.array(prog["W"], dtype=float)
        I = prog.get("I")
        n = len(I) if I is not None else len(W)
        if I is None:
            sg = KNNSubgraph(np.zeros((n, 1)), np.zeros(n, dtype=int))
            I = list(range(n))
        else:
            sg = KNNSubgraph(np.zeros((n, 1)), np.zeros(n, dtype=int), I=np.array(I, dtype=int))
        args = (None, True, W)
        Dm = [[float(W[I[a]][I[b]]) for b in range(n)] for a in range(n)]
    else:
        X = np.array(prog["X"], dtype=float)
        n = len(X)
        fn = D.DISTANCES[prog["metric"]]
        sg = KNNSubgraph(X.copy(), np.zeros(n, dtype=int))
        args = (fn, False, None)
        Dm = [[float(fn(X[a].copy(), X[b].copy())) for b in range(n)] for a in range(n)]
    return sg, args, Dm


def snapshot(sg):
    return (tuple((tuple(int(a) for a in nd.adjacency), float(nd.radius), float(nd.density),
                   float(nd.cost), int(nd.n_plateaus)) for nd in sg.nodes),
            float(sg.density), float(sg.constant), float(sg.min_density), float(sg.max_density))


class Ref:
    """Reference state: which arcs exist, the bound, whether a pdf was computed."""

    def __init__(self):
        self.k = None
        self.near = None
        self.bound = None
        self.pdf_done = False
        self.recreated = False
        self.destroyed_once = False

    def key(self):
        return (self.k, self.bound, self.pdf_done)


def step(sg, args, Dm, ref, op):
    """Apply op to the real subgraph and the reference; returns problem or None
    ('SKIP' = undecidable by rounding)."""
    n = len(Dm)
    kind = op[0]
    if kind == "create_arcs":
        k = int(op[1])
        ret = sg.create_arcs(k, *args)
        near, maxd, bound = DN.knn_reference(Dm, k)
        if ref.destroyed_once:
            ref.recreated = True
        ref.k, ref.near, ref.bound = k, near, bound
        for i in range(n):
            nd = sg.nodes[i]
            p = DN.adjacency_problem(Dm, k, i, [int(a) for a in nd.adjacency], float(nd.radius), near[i])
            if p:
                return p, "neighbour list"
        kk = min(k, n - 1)
        try:
            got = [float(x) for x in ret]
        except Exception:
            return "create_arcs returned %r" % (ret,), "returned maxima"
        if got[:kk] != maxd[:kk]:
            return ("create_arcs(%d) returned per-rank maxima %s, true maxima %s"
                    % (k, got[:kk], maxd[:kk])), "returned maxima"
        if float(sg.density) != float(bound):
            return ("after create_arcs(%d) the density bound is %r, the true maximum neighbour "
                    "distance is %r%s" % (k, sg.density, bound,
                                          " (arcs were re-created after destroy_arcs)" if ref.recreated else "")), \
                "density bound"
        return None, None
    if kind == "calculate_pdf":
        kp = int(op[1])
        sg.calculate_pdf(kp, *args)
        pdf, const = DN.pdf_reference(ref.near, kp, ref.bound)
        obs = [(float(nd.density), float(nd.cost)) for nd in sg.nodes]
        p = DN.density_problem(pdf, const, obs, float(sg.constant), float(sg.min_density),
                               float(sg.max_density))
        ref.pdf_done = True
        if p == "SKIP":
            return "SKIP", None
        if p:
            return "calculate_pdf(%d): %s" % (kp, p), "density estimate"
        return None, None
    if kind == "eliminate":
        h = float(op[1])
        before = [(float(nd.density), float(nd.cost)) for nd in sg.nodes]
        sg.eliminate_maxima_height(h)
        after = [(float(nd.density), float(nd.cost)) for nd in sg.nodes]
        for i, ((d0, c0), (d1, c1)) in enumerate(zip(before, after)):
            if d1 != d0:
                return "eliminate_maxima_height(%r) changed the density of sample %d" % (h, i), "eliminate"
            want = max(d0 - h, 0) if h > 0 else c0
            if c1 != want:
                return ("eliminate_maxima_height(%r): sample %d has cost %r, expected %r"
                        % (h, i, c1, want)), "eliminate"
        return None, None
    if kind == "destroy_arcs":
        sg.destroy_arcs()
        ref.k = None
        ref.destroyed_once = True
        for i, nd in enumerate(sg.nodes):
            if len(nd.adjacency) != 0:
                return "destroy_arcs left neighbours on sample %d" % i, "destroy"
        return None, None
    raise ValueError(op)


def enabled(ref, n, kmax):
    ops = []
    if ref.k is None:
        ops += [("create_arcs", k) for k in range(1, kmax + 1)]
    else:
        ops += [("calculate_pdf", kp) for kp in range(1, min(ref.k, n - 1) + 1)]
    if ref.pdf_done:
        ops += [("eliminate", h) for h in HEIGHTS]
    ops.append(("destroy_arcs",))
    return ops


def run_case(prog, res=None, want_state=False):
    sg, args, Dm = build(prog)
    ref = Ref()
    for si, op in enumerate(prog["ops"]):
        try:
            p, sym = step(sg, args, Dm, ref, tuple(op))
        except Horizon:
            raise
        except Exception as ex:
            p, sym = "%s raised %r" % (op[0], ex), "raised %s" % type(ex).__name__
        if res is not None:
            res.transitions += 1
        if p == "SKIP":
            if res is not None:
                res.skip("unmapped densities equal only up to rounding")
            p = None
        if p:
            return viol(prog, "op %d %s: %s" % (si, list(op), p), sym), None
    if want_state:
        return None, (snapshot(sg), ref.key(), ref)
    return None, None


def viol(prog, prob, sym):
    return {"check": "knn-graph", "program": prog, "observed": prob,
            "allowed": "exact k-nearest lists, radii, maxima, density bound and density map",
            "explanation": prob, "fingerprint": "KNNSubgraph: " + sym}


def base_programs(shard, seed):
    kind = shard[0]
    if kind == "g":
        _, n, m, tab, a, b = shard
        table = E.value_table(seed, m, zero=True) if tab.startswith("zero") else TINY[tab]
        for gi in range(a, b):
            W = E.matrix_from_ranks(n, E.graph_ranks(n, m, gi), table)
            if tab == "zero-embedded":
                from mc.props import c01
                I = c01.embedding(n, seed)
                yield {"mode": "pre", "W": c01.embed(W, I, table), "I": I}, n
            else:
                yield {"mode": "pre", "W": W.tolist()}, n
    else:
        _, lk, n, metric, a, b = shard
        from mc.oracles import axioms
        pts = E.lattice(lk, seed, positive=(metric not in axioms.R_CLASS))
        for si in range(a, b):
            seq = E.sequence_at(len(pts), n, si)
            yield {"mode": "features", "X": [list(pts[i]) for i in seq], "metric": metric}, n


def shard_fresh(shard, seed, res):
    for base, n in base_programs(shard, seed):
        res.states += 1
        tied = None
        for k in range(1, n + 2):
            kk = min(k, n - 1)
            # one program per (k, k'): create, pdf(k'), then all heights
            for kp in range(1, kk + 1):
                prog = dict(base)
                prog["ops"] = [["create_arcs", k], ["calculate_pdf", kp]] + [["eliminate", h] for h in HEIGHTS]
                try:
                    with horizon(10.0):
                        v, _ = run_case(prog, res)
                except Horizon as hz:
                    v = viol(prog, str(hz), "no termination")
                res.evaluations += 1
                res.traces += 1
                if tied is None:
                    _, _, Dm = build(base | {"ops": []})
                    ds = [Dm[a][b] for a in range(n) for b in range(n) if a != b]
                    tied = len(set(ds)) < len(ds)
                if tied or k > n - 1:
                    res.nontrivial += 1
                if v:
                    res.violations.append(v)
                    if res.full:
                        return
        res.outcome((n, tied))
    res.sample(prog, 1)


def shard_seq(shard, seed, res):
    _, n, m, gi, depth = shard
    table = E.value_table(seed, m, zero=True)
    base = {"mode": "pre", "W": E.matrix_from_ranks(n, E.graph_ranks(n, m, gi), table).tolist()}
    kmax = n + 1
    p0 = dict(base)
    p0["ops"] = []
    _, st0 = run_case(p0, None, True)
    seen = {(st0[0], st0[1])}
    frontier = collections.deque([([], st0[2])])
    while frontier:
        hist, ref = frontier.popleft()
        res.states += 1
        for op in enabled(ref, n, kmax):
            prog = dict(base)
            prog["ops"] = hist + [list(op)]
            try:
                with horizon(10.0):
                    v, st = run_case(prog, None, True)
            except Horizon as hz:
                v, st = viol(prog, str(hz), "no termination"), None
            res.transitions += 1
            res.evaluations += 1
            res.traces += 1
            if v:
                res.violations.append(v)
                if res.full:
                    return
                continue
            if st[2].recreated:
                res.nontrivial += 1
            key = (st[0], st[1])
            if key not in seen:
                seen.add(key)
                if len(prog["ops"]) < depth:
                    frontier.append((prog["ops"], st[2]))
                else:
                    res.count("states_at_depth_bound")
    res.outcome((n, gi, len(seen)))
    res.sample({"graph": base["W"], "distinct_states": len(seen),
                "example_history": [["create_arcs", 3], ["destroy_arcs"], ["create_arcs", 1],
                                    ["calculate_pdf", 1]]}, 1)


def fit_programs(shard, seed):
    _, n, a, b = shard
    pts = E.lattice("1d", seed)
    for si in range(a, b):
        seq = E.sequence_at(len(pts), n, si)
        X = [list(pts[i]) for i in seq]
        lab = [i % 2 for i in range(n)]
        for max_k in range(1, n):
            yield {"model": "KNNSupervisedOPF", "mode": "features", "X": X, "metric": "euclidean",
                   "labels": lab, "max_k": max_k, "val": {"X": X, "labels": lab}}
            for min_k in range(1, max_k + 1):
                yield {"model": "UnsupervisedOPF", "mode": "features", "X": X, "metric": "euclidean",
                       "labels": lab, "min_k": min_k, "max_k": max_k}


def fit_case(prog, res=None):
    try:
        m = K.fit_program(prog)
    except Horizon:
        raise
    except Exception as ex:
        return fviol(prog, "fit raised %r" % (ex,), "fit raised %s" % type(ex).__name__)
    obs = K.observe(m)
    Dm = K.dist_matrix(prog, m)
    k = obs["best_k"]
    near, maxd, bound = DN.knn_reference(Dm, k)
    if res is not None:
        res.transitions += 1
        if k < prog["max_k"]:
            res.nontrivial += 1
        res.outcome((prog["model"], len(Dm), k))
    if float(obs["density"]) != float(bound):
        return fviol(prog, "after %s.fit (best_k=%d of max_k=%d) the subgraph's density bound is %r "
                     "but the largest best_k-neighbour distance is %r"
                     % (prog["model"], k, prog["max_k"], obs["density"], bound), "stale density bound")
    pdf, const = DN.pdf_reference(near, k, bound)
    p = DN.density_problem(pdf, const, [(nd["density"], nd["density"] - 1) for nd in obs["nodes"]],
                           obs["constant"], obs["min_density"], obs["max_density"])
    if p == "SKIP":
        if res is not None:
            res.skip("unmapped densities equal only up to rounding")
        return None
    if p:
        return fviol(prog, "after %s.fit (best_k=%d): %s" % (prog["model"], k, p), "density state")
    return None


def fviol(prog, prob, sym):
    return {"check": "fit-end-state", "program": prog, "observed": prob,
            "allowed": "density bound / constant / range / densities of the best_k graph",
            "explanation": prob, "fingerprint": "%s.fit: %s" % (prog["model"], sym)}


def big_program(n, k, seed):
    sc = [1.0, 0.5, 2.0][seed % 3]
    X = [[sc * (i * 1.0 + (i % 7) * 0.01 + (i % 3) * 0.3)] for i in range(n)]
    return {"mode": "features", "X": X, "metric": "euclidean",
            "ops": [["create_arcs", k], ["calculate_pdf", k], ["eliminate", 0.5]]}


def run(shard, seed):
    res = Result()
    if shard[0] == "big":
        prog = big_program(shard[1], shard[2], seed)
        with horizon(120.0):
            v, _ = run_case(prog, res)
        res.evaluations += 1
        res.traces += 1
        res.states += 1
        res.nontrivial += 1
        if v:
            v["program"] = {"big": [shard[1], shard[2], seed]}
            res.violations.append(v)
        res.sample({"big_instance": "300 one-dimensional samples", "k": shard[2]}, 1)
        return res
    if shard[0] in ("g", "feat"):
        shard_fresh(shard, seed, res)
    elif shard[0] == "seq":
        shard_seq(shard, seed, res)
    else:
        first = True
        for prog in fit_programs(shard, seed):
            try:
                with horizon(10.0):
                    v = fit_case(prog, res)
            except Horizon as hz:
                v = fviol(prog, str(hz), "no termination")
            res.evaluations += 1
            res.traces += 1
            res.states += 1
            if first:
                res.sample(prog, 1)
                first = False
            if v:
                res.violations.append(v)
                if res.full:
                    break
    return res


def replay(case):
    prog = case["program"]
    if "big" in prog:
        n, k, seed = prog["big"]
        v = run_case(big_program(n, k, seed))[0]
        if v:
            v["program"] = prog
        return v
    if "model" in prog:
        return fit_case(prog)
    return run_case(prog)[0]
