"""C03 - supervised prediction equals the exhaustive minimum of
max(cost, distance).  Explorer E over (fitted forest, query) pairs."""
import numpy as np

from mc import enum as E
from mc import sup
from mc.oracles import forest as F
from mc.props import c01
from mc.runner import Result, horizon, Horizon

ID = "C03"
TITLE = "prediction = exhaustive argmin of max(cost, d)"
RULE = ("every weighted complete graph on n+1 nodes (all weak edge orderings for n+1=4, all "
        "assignments over 2-3 values for n+1=5(6), zero weights included): train on every "
        "n-subset (seed-chosen index order, every labeling with >=2 classes), predict the "
        "remaining node - this ranges over all fitted forests x all query distance vectors "
        "over the alphabet; feature mode: every lattice point sequence as training set, every "
        "lattice point, midpoint and a far point as one query batch; two matrix-fed queries in one batch "
        "(every 5-node graph over {0, w}, every pair of query nodes, both orders: the query x query "
        "entry is never mentioned by the rule and ranges over zero / non-zero); SupervisedOPF and "
        "SemiSupervisedOPF; the returned label must belong to the label set of the exhaustive "
        "minimisers computed from the model's own fitted costs; non-trivial = the early exit "
        "can skip at least one sample (some cost >= optimum) or several samples tie for the "
        "minimum")
ASSUMPTIONS = [
    "fitted costs/labels of the model are taken as given (C01 judges them)",
    "n <= 4 (quick) / 5 (thorough) training samples in matrix mode, <= 4 in feature mode",
]
QUICK_METRICS = ["euclidean", "log_squared_euclidean"]
THOROUGH_METRICS = c01.THOROUGH_METRICS


def bounds(tier):
    b = {"pre_computed": ["WO(4): 3 train + 1 query x L(3)", "G(4,3,zero): 3+1 x L(3)",
                          "G(5,2): 4+1 x L(4)", "joint: G(5,2,zero) 3 train + 2 queries in one batch, both orders x L(3)", "semi: G(5,2) 3 labeled + 1 unlabeled + 1 query"],
         "features": ["P(3,{0,1,2}^2) x L(3), P(4,{0..3}) x L(4) x 26/8 queries x %s" % QUICK_METRICS]}
    if tier == "thorough":
        b["pre_computed"] += ["G(5,3,zero): 4+1 x L(4)", "G(6,2): 5+1 x L(5)"]
        b["features"] = ["P(3,{0,1,2}^2) x L(3), P(4,{0,1,2}^2) x L(4), P(4,{0..3}) x L(4) x %s" % THOROUGH_METRICS]
    return b


def plan(tier, seed):
    shards = []
    for a, b in E.chunks(4683, 300):
        shards.append(("wo", 4, a, b))
    for a, b in E.chunks(E.n_graphs(4, 3), 250):
        shards.append(("g", 4, 3, True, a, b))
    for a, b in E.chunks(E.n_graphs(5, 2), 64):
        shards.append(("g", 5, 2, False, a, b))
        shards.append(("semi", 5, 2, False, a, b))
    # four training samples, three weight levels with zero-weight arcs between distinct samples (three
    # prototypes and a non-prototype at cost 0 that leaves the queue before one of them)
    for a, b in E.chunks(E.n_graphs(5, 3), 400):
        shards.append(("g", 5, 3, True, a, b))
    # two queries in ONE batch: every 5-node graph over {0, w} (so the query x query entry, which the
    # rule never mentions, and query-training entries range over zero and non-zero), every choice of
    # the two query nodes, both batch orders
    for a, b in E.chunks(E.n_graphs(5, 2), 64):
        shards.append(("joint", 5, 2, True, a, b))
    # classifiers obtained by other routes than fit(): learn() (all RNG answers), and save/load into
    # an object constructed with a different metric
    for pi in range(24):
        shards.append(("learn", pi))
    for a, b in E.chunks(256, 32):
        shards.append(("load", a, b))
    # one object switched between matrix-fed and metric-fed use through its public properties
    for a, b in E.chunks(64, 8):
        shards.append(("toggle", a, b))
    # value tables in unusual numerical regimes: nearly equal weights (relative gaps of a few 1e-6,
    # i.e. inside the default tolerances of "approximately equal" tests) and tiny / huge magnitudes
    for tab in ("near", "tiny", "huge", "tiny2"):
        for a, b in E.chunks(E.n_graphs(4, 3), 250):
            shards.append(("gt", 4, 3, tab, a, b))
        for a, b in E.chunks(E.n_graphs(5, 2), 128):
            shards.append(("gt", 5, 2, tab, a, b))
    # a direction-dependent dissimilarity: d(training sample, query) is what the rule uses
    for a, b in E.chunks(E.n_sequences(4, 4), 64):
        shards.append(("feat", "1dpos", 4, "pearson", a, b))
        shards.append(("feat", "1dpos", 4, "kullback_leibler", a, b))
    # five training samples + one query over two weight levels, one sample in the minority class
    # (samples that wait in the queue with equal tentative costs, one of them improved later)
    for a, b in E.chunks(E.n_graphs(6, 2), 1024):
        shards.append(("g6", a, b))
    # a "metric" whose self-distance is not 0 (gaussian: d(x, x) = 1 is its largest value); queries
    # include copies of the training samples
    for a, b in E.chunks(E.n_sequences(4, 4), 64):
        shards.append(("feat", "1d", 4, "gaussian", a, b))
    # ordinary lattice data at a tiny scale (every distance far below 1e-8)
    for mt in ("squared_euclidean", "log_squared_euclidean"):
        for a, b in E.chunks(E.n_sequences(4, 4), 64):
            shards.append(("feat", "1dtiny", 4, mt, a, b))
    for mt in (QUICK_METRICS if tier == "quick" else THOROUGH_METRICS):
        for a, b in E.chunks(E.n_sequences(9, 3), 243):
            shards.append(("feat", "2d", 3, mt, a, b))
        for a, b in E.chunks(E.n_sequences(4, 4), 64):
            shards.append(("feat", "1d", 4, mt, a, b))
        if tier == "thorough":
            for a, b in E.chunks(E.n_sequences(9, 4), 400):
                shards.append(("feat", "2d", 4, mt, a, b))
    if tier == "thorough":
        for a, b in E.chunks(E.n_graphs(6, 2), 200):
            shards.append(("g", 6, 2, False, a, b))
    return shards


warm = c01.warm


def order(nodes, seed):
    nodes = list(nodes)
    if seed:
        import random
        random.Random(555 + seed + len(nodes)).shuffle(nodes)
    return nodes


def query_points(pts):
    """lattice points, all midpoints of lattice pairs, one far point."""
    d = len(pts[0])
    qs = set(pts)
    for a in pts:
        for b in pts:
            qs.add(tuple((x + y) / 2.0 for x, y in zip(a, b)))
    far = tuple(max(p[i] for p in pts) * 50.0 + 100.0 for i in range(d))
    return sorted(qs) + [far]


TABLES = {"near": [1.0, 1.0 + 3e-6, 1.0 + 6e-6], "tiny": [1e-9, 2e-9, 3.5e-9], "huge": [1e20, 2e20, 3.5e20],
          "tiny2": [1e-25, 2e-25, 3.5e-25]}       # below every absolute "epsilon" a comparison might add


def programs(shard, seed):
    kind = shard[0]
    if kind == "g6":
        _, a, b = shard
        table = E.value_table(seed, 2)
        for gi in range(a, b):
            Wl = E.matrix_from_ranks(6, E.graph_ranks(6, 2, gi), table).tolist()
            for q in range(6):
                train = order([i for i in range(6) if i != q], seed)
                for j in range(5):
                    lab = [0] * 5
                    lab[j] = 1
                    yield {"model": "SupervisedOPF", "mode": "pre", "W": Wl, "I_train": train,
                           "labels": list(E.rename_classes(tuple(lab), seed)), "batches": [[q]]}
        return
    if kind == "joint":
        import itertools
        _, n1, m, zero, a, b = shard
        table = E.value_table(seed, m, zero=zero)
        labs = E.labelings(n1 - 2)
        for gi in range(a, b):
            Wl = E.matrix_from_ranks(n1, E.graph_ranks(n1, m, gi), table).tolist()
            for q1, q2 in itertools.combinations(range(n1), 2):
                train = order([i for i in range(n1) if i not in (q1, q2)], seed)
                for lab in labs:
                    yield {"model": "SupervisedOPF", "mode": "pre", "W": Wl, "I_train": train,
                           "labels": list(E.rename_classes(lab, seed)),
                           "batches": [[q1, q2], [q2, q1]]}
        return
    if kind in ("wo", "g", "semi", "gt"):
        if kind == "gt":
            _, n1, m, tab, a, b = shard
            table = TABLES[tab][:m]
            graphs = (E.matrix_from_ranks(n1, E.graph_ranks(n1, m, gi), table) for gi in range(a, b))
        elif kind == "wo":
            _, n1, a, b = shard
            table = E.value_table(seed, n1 * (n1 - 1) // 2, zero=(seed % 2 == 1))
            graphs = (E.matrix_from_ranks(n1, r, table) for r in c01.weak_orders(n1)[a:b])
        else:
            _, n1, m, zero, a, b = shard
            table = E.value_table(seed, m, zero=zero)
            graphs = (E.matrix_from_ranks(n1, E.graph_ranks(n1, m, gi), table)
                      for gi in range(a, b))
        if kind == "semi":
            labs = E.labelings(n1 - 2)
            for W in graphs:
                Wl = W.tolist()
                for lab in labs:
                    yield {"model": "SemiSupervisedOPF", "mode": "pre", "W": Wl,
                           "I_train": order(range(n1 - 2), seed),
                           "labels": list(E.rename_classes(lab, seed)), "n_unlabeled": 1,
                           "batches": [[n1 - 1], [n1 - 1, n1 - 1]]}
            return
        labs = E.labelings(n1 - 1)
        if kind == "g" and n1 == 5 and m == 3:
            labs = E.labelings(n1 - 1, max_classes=2)       # 59 049 graphs: two-class labelings only
        for W in graphs:
            Wl = W.tolist()
            for q in range(n1):
                train = order([i for i in range(n1) if i != q], seed)
                for lab in labs:
                    yield {"model": "SupervisedOPF", "mode": "pre", "W": Wl, "I_train": train,
                           "labels": list(E.rename_classes(lab, seed)),
                           "batches": [[q]]}
                    if kind == "g" and n1 == 4:
                        # identifiers in descending order (identifier 0, when present, is stored last)
                        yield {"model": "SupervisedOPF", "mode": "pre", "W": Wl, "I_train": train[::-1],
                               "labels": list(E.rename_classes(lab, seed))[::-1],
                               "batches": [[q], [q, q]]}
    else:
        _, lk, n, metric, a, b = shard
        if lk == "1dpos":
            pts = E.lattice("1d", seed, positive=True)
        elif lk == "1dtiny":
            pts = [tuple(v * 1e-6 for v in p) for p in E.lattice("1d", seed)]
        else:
            pts = E.lattice(lk, seed)
        qs = [list(p) for p in query_points(pts)]
        if lk == "1dpos":
            qs = [q for q in qs if all(v > 0 for v in q)]
        labs = E.labelings(n)
        if n >= 6:
            labs = [tuple(i % 2 for i in range(n)), tuple(0 if i < n // 2 else 1 for i in range(n)),
                    tuple((i * i) % 3 for i in range(n))]
        for si in range(a, b):
            seq = E.sequence_at(len(pts), n, si)
            X = [list(pts[i]) for i in seq]
            for li, lab in enumerate(labs):
                kindm = "SemiSupervisedOPF" if (si + li) % 5 == 4 else "SupervisedOPF"
                yield {"model": kindm, "mode": "features", "X": X, "metric": metric,
                       "labels": list(E.rename_classes(lab, seed)), "n_unlabeled": 0,
                       "batches": [qs]}
                if (si + li) % 4 == 1 and all(float(v).is_integer() for r in X for v in r):
                    # integer-typed training matrix, real-valued queries (midpoints are fractional)
                    yield {"model": kindm, "mode": "features", "X": X, "metric": metric,
                           "labels": list(E.rename_classes(lab, seed)), "n_unlabeled": 0,
                           "batches": [qs], "labeled_dtype": "int64"}


def run_case(prog, res=None, model=None):
    try:
        m, Wd = sup.fit_program(prog, model=model)
    except Horizon:
        raise
    except Exception as ex:
        return viol(prog, "fit raised %r" % (ex,), "fit raised")
    nodes = m.subgraph.nodes
    costs = [float(nd.cost) for nd in nodes]
    plab = [int(nd.predicted_label) for nd in nodes]
    pre = prog["mode"] == "pre"
    nl = len(prog["labels"])
    if pre:
        W = np.array(prog["W"], dtype=float)
        tidx = [int(i) for i in prog["I_train"]] + [nl + i for i in range(int(prog.get("n_unlabeled", 0)))]
    for batch in prog["batches"]:
        try:
            if pre:
                preds = m.predict(np.zeros((len(batch), 1)), I_val=np.array(batch, dtype=int))
            else:
                preds = m.predict(np.array(batch, dtype=float))
        except Horizon:
            raise
        except Exception as ex:
            return viol(prog, "predict raised %r" % (ex,), "predict raised")
        if len(preds) != len(batch):
            return viol(prog, "predict returned %d labels for %d samples" % (len(preds), len(batch)),
                        "prediction count")
        for bi, q in enumerate(batch):
            if pre:
                dists = [float(W[t][q]) for t in tidx]
            else:
                qa = np.array(q, dtype=float)
                dists = [float(m.distance_fn(nd.features.copy(), qa.copy())) for nd in nodes]
            allowed, best, arg = F.acceptable_labels(costs, plab, dists)
            got = int(preds[bi])
            if res is not None:
                res.transitions += 1
                if len(arg) > 1 or any(c >= best for c in costs):
                    res.nontrivial += 1
                res.outcome((len(nodes), len(arg), len(allowed), got in allowed))
            if got not in allowed:
                return viol(prog, "query %r (batch position %d) was labelled %d; the samples "
                            "minimising max(cost, d) (value %r, samples %s) carry labels %s; "
                            "costs %s, distances %s" % (q, bi, got, best, arg, sorted(allowed),
                                                         costs, dists),
                            "label not of an exhaustive minimiser")
    return None


def judge_feature_model(m, queries, prog, res=None):
    """Exhaustive-rule oracle for a fitted feature-mode model obtained by ANY route (fit, learn,
    load): distances are taken with the metric its `distance` option names."""
    import opfython.math.distance as D
    fn = D.DISTANCES[m.distance]
    nodes = m.subgraph.nodes
    costs = [float(nd.cost) for nd in nodes]
    plab = [int(nd.predicted_label) for nd in nodes]
    try:
        preds = m.predict(np.array(queries, dtype=float))
    except Horizon:
        raise
    except Exception as ex:
        return viol(prog, "predict raised %r" % (ex,), "predict raised")
    for bi, q in enumerate(queries):
        qa = np.array(q, dtype=float)
        dists = [float(fn(nd.features.copy(), qa.copy())) for nd in nodes]
        allowed, best, arg = F.acceptable_labels(costs, plab, dists)
        got = int(preds[bi])
        if res is not None:
            res.transitions += 1
            res.evaluations += 1
            res.nontrivial += 1
        if got not in allowed:
            return viol(prog, "query %r was labelled %d; the samples minimising max(cost, d) (value %r, samples "
                        "%s) carry labels %s; costs %s, distances %s" % (q, got, best, arg, sorted(allowed), costs, dists),
                        "label not of an exhaustive minimiser")
    return None


def learn_case(prog, res=None, chooser=None):
    """A classifier produced by learn() (RNG answers from prog["script"]) must obey the rule too."""
    from mc import seams
    from mc.props import c17
    from opfython.models import SupervisedOPF
    cfg = prog["learn"]
    ch = chooser if chooser is not None else seams.Chooser(prog["script"], 0)
    Xt = np.array(cfg["Xt"], dtype=float).reshape(-1, 1)
    o = SupervisedOPF("euclidean")
    import contextlib
    import opfython.math.general as g
    script = cfg.get("acc_script")
    ctx = contextlib.nullcontext()
    if script is not None:
        # the validation accuracy of each iteration is an environment answer served from the script
        # (so that the best iteration need not be the last one)
        n_acc = [0]

        def acc(labels, preds, *more, **kw):
            a = float(script[min(n_acc[0], len(script) - 1)])
            n_acc[0] += 1
            return a
        ctx = seams.patched(g, "opf_accuracy", acc)
    with c17.own_rng(ch), ctx:
        try:
            o.learn(Xt, np.array(cfg["Yt"], dtype=int), np.array(cfg["Xv"], dtype=float).reshape(-1, 1),
                    np.array(cfg["Yv"], dtype=int), n_iterations=cfg["iters"])
        except Horizon:
            raise
        except Exception as ex:
            return viol(prog, "learn raised %r" % (ex,), "learn raised")
    qs = [[v] for v in (-1.0, 0.0, 0.5, 1.0, 2.0, 2.5, 3.0, 4.0, 4.5, 5.0, 7.0)]
    v = judge_feature_model(o, qs, prog, res)
    if v:
        v["fingerprint"] = "SupervisedOPF.predict after learn: label not of an exhaustive minimiser"
    return v


def load_case(prog, res=None):
    """fit with one metric, save, load into an object constructed with ANOTHER metric, predict."""
    import os
    import shutil
    import tempfile
    from mc.runner import scratch_dir
    import opfython.models as M
    cls = getattr(M, prog["model"])
    d = tempfile.mkdtemp(prefix="c03-", dir=scratch_dir())
    try:
        a = cls(distance=prog["metric"])
        X = np.array(prog["X"], dtype=float)
        lab = np.array(prog["labels"], dtype=int)
        if prog["model"] == "SemiSupervisedOPF":
            a.fit(X[:-1].copy(), lab[:-1], X[-1:].copy())
        else:
            a.fit(X.copy(), lab)
        path = os.path.join(d, "m.pkl")
        a.save(path)
        b = cls(distance=prog["other"])
        b.load(path)
        v = judge_feature_model(b, prog["queries"], prog, res)
        if v:
            v["fingerprint"] = "%s.predict after load: label not of an exhaustive minimiser" % prog["model"]
        return v
    except Horizon:
        raise
    except Exception as ex:
        return viol(prog, "save/load raised %r" % (ex,), "save/load raised")
    finally:
        shutil.rmtree(d, ignore_errors=True)


def viol(prog, prob, sym):
    return {"check": "predict", "program": prog, "observed": prob,
            "allowed": "label of a minimiser of max(cost(t), d(t, x)) over all training samples",
            "explanation": prob, "fingerprint": "%s.predict: %s" % (prog.get("model", "SupervisedOPF"), sym)}


_PREV = {}


def toggle_programs(shard, seed):
    """Pairs (A, B) run one after the other on ONE object whose `pre_computed_distance` flag is
    switched in between: matrix-fed then metric-fed, and the other way round."""
    _, a, b = shard
    pts = E.lattice("1d", seed)
    qs = [[v] for v in (-1.0, 0.0, 0.5, 1.0, 1.5, 2.0, 2.5, 3.0, 9.0)]
    table = E.value_table(seed, 2)
    for si in range(a, b):
        seq = E.sequence_at(4, 3, si)
        X = [list(pts[i]) for i in seq]
        for gi in range(E.n_graphs(4, 2)):
            W = E.matrix_from_ranks(4, E.graph_ranks(4, 2, gi), table).tolist()
            for kindm in ("SupervisedOPF", "SemiSupervisedOPF"):
                for lab in ([0, 1, 0], [0, 0, 1]):
                    A = {"model": kindm, "mode": "pre", "W": W, "I_train": [0, 1, 2], "labels": lab,
                         "n_unlabeled": 0, "batches": [[3], [3, 3]], "set_flag": True}
                    B = {"model": kindm, "mode": "features", "X": X, "metric": "euclidean", "labels": lab,
                         "n_unlabeled": 0, "batches": [qs], "set_flag": True}
                    yield {"toggle": [A, B]}
                    yield {"toggle": [B, A]}
                    if gi % 16 == 5:
                        yield {"toggle": [A, B, A]}


def toggle_case(prog, res=None):
    steps = prog["toggle"]
    metric = [p["metric"] for p in steps if p["mode"] == "features"][0]
    m = sup.fresh_model(steps[0]["model"], metric, steps[0]["mode"] == "pre")
    for k, p in enumerate(steps):
        v = run_case(p, res, model=m)
        if v:
            v["program"] = prog
            v["explanation"] = ("step %d of %d on one object (%s): " % (k + 1, len(steps),
                                " -> ".join(q["mode"] for q in steps))) + v["explanation"]
            v["fingerprint"] += " (after switching pre_computed_distance)" if k else ""
            return v
    return None


def _key(prog):
    return sup.cache_key(prog) if prog["model"] in ("SupervisedOPF", "SemiSupervisedOPF") else None


def run_special(shard, seed, res):
    if shard[0] == "learn":
        from mc.explore import explore
        from mc.props import c17
        cfgs = list(c17.learn_configs(3, shard[1], seed))
        if shard[1] % 8 == 0:
            cfgs += list(c17.scripted_configs(shard[1], seed, 0, 3))
        for cfg in cfgs:
            found = []

            def execute(ch):
                prog = {"learn": cfg, "script": []}
                with horizon(20.0):
                    v = learn_case(prog, res, chooser=ch)
                if v:
                    v["program"] = {"learn": cfg, "script": [c for _, c in ch.points]}
                    found.append(v)
                return v

            out = explore(execute)
            res.traces += out["executions"]
            res.states += 1
            res.violations.extend(found[:1])
            if res.full:
                break
        res.sample({"learn": cfg, "script": "all RNG answer sequences", "then": "predict 11 queries"}, 1)
        return res
    _, a, b = shard
    pts = E.lattice("1d", seed)
    qs = [[v] for v in (-1.0, 0.0, 0.5, 1.0, 1.5, 2.0, 2.5, 3.0, 9.0)]
    for si in range(a, b):
        seq = E.sequence_at(4, 4, si)
        X = [list(pts[i]) for i in seq]
        for lab in ([0, 1, 0, 1], [0, 0, 1, 1]):
            for model in ("SupervisedOPF", "SemiSupervisedOPF"):
                for m1, m2 in (("manhattan", "log_squared_euclidean"), ("log_squared_euclidean", "euclidean"),
                               ("squared_euclidean", "chebyshev")):
                    prog = {"model": model, "mode": "features", "X": X, "labels": lab, "metric": m1,
                            "other": m2, "queries": qs, "route": "load"}
                    with horizon(20.0):
                        v = load_case(prog, res)
                    res.traces += 1
                    res.states += 1
                    if v:
                        res.violations.append(v)
                        if res.full:
                            return res
    res.sample(prog, 1)
    return res


def run(shard, seed):
    res = Result()
    if shard[0] == "toggle":
        prog = None
        for prog in toggle_programs(shard, seed):
            try:
                with horizon(20.0):
                    v = toggle_case(prog, res)
            except Horizon as hz:
                v = viol(prog, str(hz), "no termination")
            res.evaluations += sum(len(b) for p in prog["toggle"] for b in p["batches"])
            res.states += 1
            res.traces += 1
            if v:
                res.violations.append(v)
                if res.full:
                    break
        res.sample(prog, 1)
        return res
    if shard[0] in ("learn", "load"):
        return run_special(shard, seed, res)
    k = 0
    for prog in programs(shard, seed):
        try:
            with horizon(10.0):
                v = run_case(prog, res)
        except Horizon as hz:
            v = viol(prog, str(hz), "no termination")
        res.evaluations += sum(len(b) for b in prog["batches"])
        res.states += 1
        res.traces += 1
        if k == 0:
            res.sample({k_: (v_ if k_ != "batches" else [b[:3] for b in v_])
                        for k_, v_ in prog.items()}, 1)
        k += 1
        if v:
            prev = _PREV.get(_key(prog)) if _key(prog) is not None else None
            sup.with_history(v, prev)
            res.violations.append(v)
            if res.full:
                break
        _PREV[_key(prog)] = prog
    return res


def replay(case):
    p = case["program"]
    if "toggle" in p:
        return toggle_case(p)
    if "learn" in p:
        return learn_case(p)
    if p.get("route") == "load":
        return load_case(p)
    return sup.replay_with_history(run_case, p)
