"""C18 - splitting, merging, loading, parsing and converting preserve every
sample.  Explorer D: the permutation drawn by split is an intercepted
environment answer and EVERY permutation is served; explorer E: all small
datasets through the three converters/loaders/parser."""
import itertools
import json
import os
import shutil
import struct
import tempfile

import numpy as np

from mc import enum as E
from mc import seams
from mc.runner import Result, horizon, Horizon, scratch_dir

ID = "C18"
TITLE = "split/merge/load/parse/convert preserve every sample"
RULE = ("split: n = 0..6 rows tagged with their index, 1-2 feature columns, label patterns from "
        "all labelings, every percentage in {0, 1/n, .., 1} U {0.1, 0.25, 0.3, 0.5, 0.7, 0.9}; "
        "numpy.random.permutation is intercepted and answered with EVERY permutation (n <= 5; 12 "
        "for n = 6); un-intercepted seeds 0..31 (thorough 0..255) for determinism, also after "
        "arbitrary prior use of the global RNG; oracle: index sets partition 0..n-1, rows and "
        "labels follow their indices, |first| = int(n*percentage), split == split_with_index, "
        "merge (of the very objects returned, in both orders) gives back the multiset of labelled rows. convert/load/parse: every OPF binary dataset with "
        "n = 1..3 samples over 9 feature vectors (float32-representable and not), arbitrary ids (small, "
        "unordered, and above 2**24 up to 2**31-1), "
        "labels 1..K -> opf2txt/csv/json -> load_* -> parse_loader and Subgraph(from_file): "
        "float32 values exactly, labels shifted to 0.., ids preserved, three formats identical; "
        "parser: every label vector over {0..3} of length <= 4 accepted iff its value set is "
        "{0..K-1}. Non-trivial = n >= 2")
ASSUMPTIONS = [
    "n <= 6 (split), n <= 3 samples x <= 2 features (thorough 4 x 2 and 2 x 3) for conversion",
    "labels are non-negative integers (the library's label domain)",
]
PCTS = [0.1, 0.25, 0.3, 0.5, 0.7, 0.9]
FEATURE_VALUES = [0.0, 0.1, -2.5]


def bounds(tier):
    return {"split_n": "0..6", "permutations": "all for n<=5, 12 for n=6",
            "seeds": 32 if tier == "quick" else 256,
            "convert": "n 1..3 x 9 feature vectors x label patterns x 2 id patterns"
            + ("; n=4 over 4 feature vectors; 3 features for n<=2" if tier == "thorough" else ""),
            "parser": "all label vectors over {0..3}, length 1..4"}


def plan(tier, seed):
    shards = []
    for n in range(0, 7):
        for nf in (1, 2):
            shards.append(("split", n, nf))
    shards.append(("seeds", 32 if tier == "quick" else 256))
    for n in (1, 2, 3):
        tot = 9 ** n
        for a, b in E.chunks(tot, 81):
            shards.append(("conv", n, 2, a, b))
    shards.append(("conv", 1, 1, 0, 3))
    shards.append(("conv", 2, 1, 0, 9))
    if tier == "thorough":
        for a, b in E.chunks(4 ** 4, 32):
            shards.append(("conv4", a, b))
        shards.append(("conv", 1, 3, 0, 27))
        for a, b in E.chunks(27 ** 2, 81):
            shards.append(("conv", 2, 3, a, b))
    shards.append(("parser",))
    # files of several thousand samples (longer than one 64 KiB block of any chunked reader or writer)
    for n, nf in ((4097, 2), (5000, 2), (8200, 4), (16400, 1), (16384, 3)):
        shards.append(("convbig", n, nf))
    return shards


# --------------------------------------------------------------------------
# split
# --------------------------------------------------------------------------
def split_case(prog):
    from opfython.stream import splitter
    n, nf = prog["n"], prog["nf"]
    X = np.array([[float(10 * i + j) for j in range(nf)] for i in range(n)], dtype=float).reshape(n, nf)
    Y = np.array(prog["labels"], dtype=int)
    pct = prog["pct"]
    perm = prog.get("perm")
    X0, Y0 = X.copy(), Y.copy()

    def fake_perm(k):
        if int(k) != n:
            raise seams.ScriptExhausted("permutation requested for %r items, dataset has %d" % (k, n))
        return np.array(perm, dtype=int)

    import contextlib
    ctx = seams.patched(np.random, "permutation", fake_perm) if perm is not None else contextlib.nullcontext()
    try:
        with ctx:
            r6 = splitter.split_with_index(X, Y, pct, prog.get("seed", 1))
            r4 = splitter.split(X, Y, pct, prog.get("seed", 1))
    except Horizon:
        raise
    except Exception as ex:
        return "split raised %r" % (ex,), "split raised %s" % type(ex).__name__
    X1, X2, Y1, Y2, I1, I2 = [np.asarray(a) for a in r6]
    I1l, I2l = [int(i) for i in I1], [int(i) for i in I2]
    if sorted(I1l + I2l) != list(range(n)):
        return "index sets %s / %s do not partition 0..%d" % (I1l, I2l, n - 1), "indices not a partition"
    if perm is not None and I1l + I2l != list(perm):
        # any assignment is fine as long as it is a partition; nothing to check here
        pass
    want = int(n * pct)
    if len(I1l) != want:
        return "first set has %d samples, floor(n*percentage) = int(%d*%r) = %d" % (len(I1l), n, pct, want), \
            "first set size"
    for (Xa, Ya, Ia, name) in ((X1, Y1, I1l, "first"), (X2, Y2, I2l, "second")):
        if len(Xa) != len(Ia) or len(Ya) != len(Ia):
            return "%s set: %d rows, %d labels, %d indices" % (name, len(Xa), len(Ya), len(Ia)), "set sizes"
        for r, i in enumerate(Ia):
            if Xa[r].tolist() != X0[i].tolist() or int(Ya[r]) != int(Y0[i]):
                return ("%s set row %d claims original index %d but holds features %s / label %d "
                        "(original %s / %d)" % (name, r, i, Xa[r].tolist(), int(Ya[r]), X0[i].tolist(),
                                                int(Y0[i]))), "row does not follow its index"
    a4 = [np.asarray(a) for a in r4]
    for k, (u, v) in enumerate(zip(a4, (X1, X2, Y1, Y2))):
        if u.shape != v.shape or u.tolist() != v.tolist():
            return "split() output %d differs from split_with_index()" % k, "split != split_with_index"
    if not np.array_equal(X, X0) or not np.array_equal(Y, Y0):
        return "split modified its input", "input modified"
    try:
        Xm, Ym = splitter.merge(X1, X2, Y1, Y2)
    except Exception as ex:
        return "merge raised %r" % (ex,), "merge raised"
    got = sorted((tuple(r), int(l)) for r, l in zip(np.asarray(Xm).tolist(), np.asarray(Ym).tolist()))
    wantm = sorted((tuple(r), int(l)) for r, l in zip(X0.tolist(), Y0.tolist()))
    if got != wantm:
        return "merging the two sets does not give back the original samples", "merge loses samples"
    # the order in which the two sets are handed to merge must not matter ("up to order")
    # (the very objects returned by split() and by split_with_index() are handed back)
    for name, (A1, A2, B1, B2) in (("split_with_index", (r6[0], r6[1], r6[2], r6[3])),
                                   ("split", (r4[0], r4[1], r4[2], r4[3]))):
        for order, args in (("first-second", (A1, A2, B1, B2)), ("second-first", (A2, A1, B2, B1))):
            try:
                Xs, Ys = splitter.merge(*args)
            except Exception as ex:
                return "merge(%s) of %s() output raised %r" % (order, name, ex), "merge raised"
            got2 = sorted((tuple(r), int(l)) for r, l in zip(np.asarray(Xs).tolist(), np.asarray(Ys).tolist()))
            if got2 != wantm:
                return ("merging the two sets returned by %s() %s does not give back the original (feature, "
                        "label) pairs: %s" % (name, order, got2)), "merge loses or mislabels samples"
    return None, None


def split_programs(n, nf):
    pcts = sorted(set([i / n for i in range(n + 1)] if n else [0.0, 1.0]) | set(PCTS))
    if n <= 5:
        perms = list(itertools.permutations(range(n)))
    else:
        base = list(range(n))
        perms = [tuple(base), tuple(reversed(base))] + [tuple(base[k:] + base[:k]) for k in range(1, n)] \
            + [(1, 0, 3, 2, 5, 4), (5, 0, 4, 1, 3, 2), (2, 4, 0, 5, 1, 3), (3, 5, 1, 4, 0, 2), (4, 2, 5, 0, 3, 1)]
    labs = E.labelings(n, min_classes=1) if n else [()]
    if n >= 5:
        labs = [l for l in labs if max(l) <= 1][:6] + [tuple(range(n))]
    for perm in perms:
        for pct in pcts:
            for lab in labs:
                yield {"kind": "split", "n": n, "nf": nf, "labels": list(lab), "pct": pct,
                       "perm": list(perm)}


def seeds_case(prog):
    from opfython.stream import splitter
    n, seed = prog["n"], prog["seed"]
    X = np.array([[float(i), float(i * i)] for i in range(n)])
    Y = np.array([i % 3 for i in range(n)])
    a = splitter.split_with_index(X, Y, 0.5, seed)
    # arbitrary prior use of the global RNG must not matter
    np.random.seed(12345 + seed)
    np.random.uniform(0, 1, 7)
    np.random.permutation(5)
    b = splitter.split_with_index(X, Y, 0.5, seed)
    c = splitter.split(X, Y, 0.5, seed)
    for k in range(6):
        if np.asarray(a[k]).tolist() != np.asarray(b[k]).tolist():
            return "the same seed %d gave two different splits" % seed, "split not deterministic in the seed"
    for k in range(4):
        if np.asarray(a[k]).tolist() != np.asarray(c[k]).tolist():
            return "split and split_with_index disagree for seed %d" % seed, "split != split_with_index"
    return None, None


# --------------------------------------------------------------------------
# convert / load / parse
# --------------------------------------------------------------------------
def write_opf(path, ids, labels, feats):
    n = len(ids)
    nf = len(feats[0])
    with open(path, "wb") as f:
        f.write(struct.pack("<iii", n, len(set(labels)), nf))
        for i, l, ft in zip(ids, labels, feats):
            f.write(struct.pack("<ii" + "f" * nf, i, l, *ft))


def conv_case(prog):
    from opfython.utils import converter
    from opfython.stream import loader, parser
    from opfython.core import Subgraph
    if "gen" in prog:
        # a large dataset given by its generator (several read/write blocks long)
        n, nf = prog["gen"]["n"], prog["gen"]["nf"]
        prog = dict(prog, ids=list(range(n)), labels=[1 + (i * 5 + i // 7) % 3 for i in range(n)],
                    features=[[((i * 7 + f * 3) % 1000) / 8.0 - 20.0 for f in range(nf)] for i in range(n)])
    ids, labels, feats = prog["ids"], prog["labels"], prog["features"]
    # the SAME paths are re-used for every dataset of a run (a later conversion overwrites
    # the earlier files): results must depend on the file contents, not on the path
    own = scratch_dir() == "/var/tmp"      # stand-alone replay: private directory, removed below
    tmpdir = tempfile.mkdtemp(prefix="c18-", dir="/var/tmp") if own else \
        os.path.join(scratch_dir(), "c18-conv-%d" % os.getpid())
    os.makedirs(tmpdir, exist_ok=True)
    try:
        stem = prog.get("stem", "a")        # file names may hold further dots ("blobs.v2.txt")
        p = os.path.join(tmpdir, stem + ".dat")
        write_opf(p, ids, labels, feats)
        exp_feats = [[float(np.float32(v)) for v in r] for r in feats]
        exp_labels = [l - 1 for l in labels]
        outs = {}
        for ext, fn, ld in (("txt", converter.opf2txt, loader.load_txt),
                            ("csv", converter.opf2csv, loader.load_csv),
                            ("json", converter.opf2json, loader.load_json)):
            o = os.path.join(tmpdir, stem + "." + ext)
            try:
                fn(p, o)
                data = ld(o)
                X, Y = parser.parse_loader(data)
                data = np.asarray(data)
                got = ([int(v) for v in data[:, 0]], np.asarray(X, dtype=float).tolist(),
                       [int(v) for v in Y])
            except Horizon:
                raise
            except Exception as ex:
                return (".%s: convert/load/parse of a %d-sample dataset raised %r" % (ext, len(ids), ex),
                        "%d-sample .%s raised %s" % (min(len(ids), 2), ext if len(ids) == 1 else "*",
                                                      type(ex).__name__))
            outs[ext] = got
            if got[0] != ids:
                return ".%s: identifiers %s, stored %s" % (ext, got[0], ids), "identifiers not preserved"
            if got[1] != exp_feats:
                return ".%s: features %s, stored float32 values %s" % (ext, got[1], exp_feats), \
                    "features not the float32 values"
            if got[2] != exp_labels:
                return ".%s: labels %s, expected %s (shifted to start at 0)" % (ext, got[2], exp_labels), \
                    "labels not shifted"
            try:
                sg = Subgraph(from_file=o)
                sgf = [[float(v) for v in nd.features] for nd in sg.nodes]
                sgl = [int(nd.label) for nd in sg.nodes]
            except Horizon:
                raise
            except Exception as ex:
                return ".%s: Subgraph(from_file) raised %r" % (ext, ex), "Subgraph(from_file) raised"
            if sgf != exp_feats or sgl != exp_labels:
                return ".%s: Subgraph(from_file) holds %s / %s" % (ext, sgf, sgl), "Subgraph(from_file) differs"
        if not (outs["txt"] == outs["csv"] == outs["json"]):
            return "the three formats differ: %r" % (outs,), "formats differ"
        return None, None
    finally:
        if own:
            shutil.rmtree(tmpdir, ignore_errors=True)


def conv_programs(shard, seed):
    if shard[0] == "conv4":
        _, a, b = shard
        vecs = [(0.0, 0.1), (-2.5, 0.1), (0.1, 0.1), (1e-3, 7.0)]
        n, nf = 4, 2
        rng = range(a, b)
        nv = 4
    else:
        _, n, nf, a, b = shard
        vecs = list(itertools.product(FEATURE_VALUES, repeat=nf))
        rng = range(a, b)
        nv = len(vecs)
    sc = [1.0, 3.0, 0.7][seed % 3] if seed else 1.0
    for si in rng:
        seq = E.sequence_at(nv, n, si)
        feats = [[v * sc for v in vecs[i]] for i in seq]
        for lab in E.labelings(n, min_classes=1):
            labels = [l + 1 for l in lab]
            for ids in (list(range(n)), [7, 3, 11, 5][:n], [16777217, 903420581, 2147483647, 33554433][:n]):
                yield {"kind": "conv", "ids": ids, "labels": labels, "features": feats}
            if si % 3 == 0:
                yield {"kind": "conv", "ids": list(range(n)), "labels": labels, "features": feats,
                       "stem": "blobs.v2"}


def parser_case(prog):
    from opfython.stream import parser
    import opfython.utils.exception as EX
    labs = prog["labels"]
    data = np.array([[i, l, 0.5 * i] for i, l in enumerate(labs)], dtype=float)
    K = max(labs) + 1
    want_ok = set(labs) == set(range(K))
    try:
        X, Y = parser.parse_loader(data)
        ok = X is not None
        if ok and [int(v) for v in Y] != labs:
            return "parse_loader returned labels %s for %s" % (list(Y), labs), "parser labels"
        if ok and np.asarray(X).tolist() != [[0.5 * i] for i in range(len(labs))]:
            return "parse_loader returned features %s" % (np.asarray(X).tolist(),), "parser features"
    except EX.ValueError:
        ok = False
    except Exception as ex:
        return "parse_loader(%s) raised %r" % (labs, ex), "parser raised %s" % type(ex).__name__
    if ok != want_ok:
        return ("labels %s were %s; sequential labels 0..K-1 is %s"
                % (labs, "accepted" if ok else "rejected", want_ok)), "parser acceptance"
    return None, None


CASES = {"split": split_case, "seeds": seeds_case, "conv": conv_case, "parser": parser_case}


def run_case(prog):
    p, sym = CASES[prog["kind"]](prog)
    if p:
        return {"check": prog["kind"], "program": prog, "observed": p,
                "allowed": "every sample preserved with its label and index", "explanation": p,
                "fingerprint": "stream/%s: %s" % (prog["kind"], sym)}
    return None


def run(shard, seed):
    res = Result()
    kind = shard[0]
    if kind == "split":
        progs = split_programs(shard[1], shard[2])
    elif kind == "seeds":
        progs = ({"kind": "seeds", "n": n, "seed": s} for s in range(shard[1]) for n in (1, 4, 7))
    elif kind in ("conv", "conv4"):
        progs = conv_programs(shard, seed)
    elif kind == "convbig":
        progs = [{"kind": "conv", "gen": {"n": shard[1], "nf": shard[2]}}]
    else:
        progs = ({"kind": "parser", "labels": list(l)} for L in (1, 2, 3, 4)
                 for l in itertools.product(range(-1, 4), repeat=L))
    first = True
    for prog in progs:
        try:
            with horizon(300.0 if "gen" in prog else 10.0):
                v = run_case(prog)
        except Horizon as hz:
            v = {"check": kind, "program": prog, "observed": str(hz), "allowed": "termination",
                 "explanation": str(hz), "fingerprint": "stream/%s: no termination" % kind}
        res.evaluations += 1
        res.states += 1
        res.traces += 1
        res.transitions += 3 if kind == "split" else (9 if kind.startswith("conv") else 1)
        n = prog.get("n", len(prog.get("labels", [])))
        if n >= 2:
            res.nontrivial += 1
        if first:
            res.sample(prog, 1)
            first = False
        res.outcome((kind, n))
        if v:
            res.violations.append(v)
            if res.full:
                break
    return res


def replay(case):
    return run_case(case["program"])
