"""Fault injection seams (crash-point enumeration): an earlier API call is made to
raise at its k-th use of an injected dependency - the metric function or the
pre-computed distance matrix - for EVERY k; afterwards the same object must still
behave correctly on a later valid call."""
import numpy as np


class InjectedFault(Exception):
    pass


class FaultyFn:
    """Wraps a metric; raises InjectedFault at the k-th call (1-based); k=None only counts."""

    def __init__(self, fn, k=None):
        self.fn = fn
        self.k = k
        self.calls = 0

    def __call__(self, x, y):
        self.calls += 1
        if self.k is not None and self.calls == self.k:
            raise InjectedFault("injected fault at metric call %d" % self.calls)
        return self.fn(x, y)


class FaultyMatrix(np.ndarray):
    """A pre-computed distance matrix whose k-th row access raises (1-based); the library
    reads it as m[i][j], i.e. one row access per distance."""

    def __new__(cls, arr, k=None):
        obj = np.asarray(arr, dtype=float).view(cls)
        obj._k = k
        obj._calls = 0
        return obj

    def __array_finalize__(self, obj):
        self._k = getattr(obj, "_k", None)
        self._calls = getattr(obj, "_calls", 0)

    def __getitem__(self, item):
        if self.ndim == 2 and not isinstance(item, tuple):
            self._calls += 1
            if self._k is not None and self._calls == self._k:
                raise InjectedFault("injected fault at matrix access %d" % self._calls)
            return np.asarray(self).__getitem__(item)
        return super().__getitem__(item)


def crash_points(run_with, total_of):
    """Helper: run_with(k) executes the earlier call with a fault at point k and must raise
    InjectedFault; total_of() returns the number of injection points of an undisturbed call."""
    n = total_of()
    return range(1, n + 1)
