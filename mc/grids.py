"""Value grids V(d, A) for the metric checks (C06, C07, C08)."""
import itertools
import random

BASE = {
    "R": [-2.0, -0.5, 0.0, 0.5, 1.0, 3.0],
    "N": [0.0, 0.25, 0.5, 1.0, 2.0, 3.0],
    "P": [0.1, 0.25, 0.5, 1.0, 2.0, 3.0],
}
EXTRA = {"R": [-7.5, 1.75], "N": [0.125, 7.5], "P": [0.01, 7.5]}


def values(cls, seed, tier):
    vals = list(BASE[cls])
    if tier == "thorough":
        vals += EXTRA[cls]
    if seed:
        rnd = random.Random(1357 + seed)
        scale = rnd.choice([0.5, 2.0, 0.3, 1.7, 4.0])
        vals = [v * scale for v in vals]
    return sorted(vals)


# tolerance ladder: values spaced around the usual "approximately equal" thresholds
# (1e-8 absolute near 1, 1e-5 relative near 1e5) - approximate comparisons are not transitive
LADDER = [1.0, 1.0 + 4e-9, 1.0 + 8e-9, 1.0 + 1.2e-8, 1e5, 1e5 + 0.7, 1e5 + 1.4]


def vectors(cls, seed, tier, dmax=None):
    """All vectors of length 1..dmax over the class's value grid; class S (and
    S0 = with zeros) are the compositions c/m with sum 1."""
    if dmax is None:
        dmax = 3
    out = {}
    if cls == "T":
        for d in range(1, (2 if tier == "quick" else 3) + 1):
            out[d] = list(itertools.product(LADDER if d < 3 else LADDER[:4] + LADDER[5:6], repeat=d))
        return out
    if cls in ("S", "S0"):
        m = 6 if tier == "quick" else 8
        if seed:
            m = [5, 6, 7][seed % 3] + (2 if tier == "thorough" else 0)
        lo = 0 if cls == "S0" else 1
        for d in range(1, dmax + 1):
            out[d] = [tuple(c / m for c in comp)
                      for comp in itertools.product(range(lo, m + 1), repeat=d) if sum(comp) == m]
        if tier == "thorough" and dmax >= 3:
            out[4] = [tuple(c / m for c in comp)
                      for comp in itertools.product(range(lo, m + 1), repeat=4) if sum(comp) == m]
        return out
    vals = values(cls, seed, tier)
    for d in range(1, dmax + 1):
        out[d] = list(itertools.product(vals, repeat=d))
    if tier == "thorough" and dmax >= 3:
        small = values(cls, seed, "quick")[:5]
        out[4] = list(itertools.product(small, repeat=4))
    return out
