"""Memory layouts of caller-supplied matrices: the same values as a C-ordered array, a
Fortran-ordered copy, a transposed view of a features-by-samples array, or a strided view."""
import numpy as np

LAYOUTS = ["C", "F", "T", "S"]


def apply(X, layout):
    X = np.array(X, dtype=float)
    if layout in (None, "C") or X.ndim != 2:
        return X
    if layout == "F":
        return np.asfortranarray(X)
    if layout == "T":
        return np.ascontiguousarray(X.T).T
    if layout == "S":          # every second column of a wider C-ordered buffer
        wide = np.zeros((X.shape[0], 2 * X.shape[1]))
        wide[:, ::2] = X
        wide[:, 1::2] = -7.0
        return wide[:, ::2]
    raise ValueError(layout)
