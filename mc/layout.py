"""Memory layouts of caller-supplied matrices: the same values as a C-ordered array, a
Fortran-ordered copy, a transposed view of a features-by-samples array, a strided view, a read-only
array, or a view with negative strides in both axes."""
import numpy as np

LAYOUTS = ["C", "F", "T", "S", "R", "N"]


def apply(X, layout):
    X = np.array(X, dtype=float)
    if layout in (None, "C") or X.ndim != 2:
        return X
    if layout == "F":
        return np.asfortranarray(X)
    if layout == "T":
        return np.ascontiguousarray(X.T).T
    if layout == "S":          # every second column of a wider C-ordered buffer
        wide = np.zeros((X.shape[0], 2 * X.shape[1]))
        wide[:, ::2] = X
        wide[:, 1::2] = -7.0
        return wide[:, ::2]
    if layout == "R":          # the caller's array is not writeable
        X.flags.writeable = False
        return X
    if layout == "N":          # reversed copy seen through [::-1, ::-1]
        return np.ascontiguousarray(X[::-1, ::-1])[::-1, ::-1]
    raise ValueError(layout)
