"""Common runner: tiers, seeds, sharding over worker processes, watchdog,
violation confirmation (replay), known findings, evidence, exit code.

A property module (mc/props/cXX.py) provides

    ID, TITLE, ASSUMPTIONS (list of str), RULE (str)
    plan(tier, seed)   -> list of picklable shard descriptors (the union of all
                          shards is the complete bounded space of the tier)
    run(shard, seed)   -> Result (see below); explores its shard exhaustively
    replay(case)       -> None if the recorded case satisfies the property on
                          the current tree, else a violation dict
    bounds(tier)       -> dict describing the bounds of the tier (for evidence)

Exit codes: 0 property held on everything explored (KNOWN-FINDING lines
allowed), 1 at least one VIOLATION line printed, 2 harness error.
"""
import hashlib
import importlib
import json
import multiprocessing as mp
import os
import signal
import sys
import time
import traceback

VERIF = os.path.dirname(os.path.dirname(os.path.abspath(__file__)))
MAX_VIOLATIONS = 5


# --------------------------------------------------------------------------
# binding to the tree under test
# --------------------------------------------------------------------------
def bind_repo():
    """Put $VERIF_REPO (default /repo) first on sys.path, silence the
    library's logging, and make sure that is the opfython we got."""
    repo = os.path.realpath(os.environ.get("VERIF_REPO", "/repo"))
    if sys.path[0] != repo:
        sys.path.insert(0, repo)
    os.environ.setdefault(
        "NUMBA_CACHE_DIR", os.path.join(VERIF, "scratch", "numba-cache")
    )
    import logging
    import warnings

    logging.disable(logging.CRITICAL)
    warnings.simplefilter("ignore")
    import numpy as np

    np.seterr(all="ignore")
    import opfython

    got = os.path.realpath(opfython.__file__)
    if not got.startswith(repo + os.sep):
        raise RuntimeError("opfython imported from %s, not from %s" % (got, repo))
    return repo


# --------------------------------------------------------------------------
# per-case horizon
# --------------------------------------------------------------------------
def scratch_dir():
    """Per-run scratch root (removed by the runner when the run ends, also after an
    early stop that kills the workers)."""
    d = os.environ.get("VERIF_SCRATCH")
    if not d or not os.path.isdir(d):
        d = "/var/tmp"
    return d


class Horizon(Exception):
    """Raised inside a case when it did not finish within its horizon."""


def _alarm(signum, frame):
    raise Horizon("case did not terminate within the horizon")


class horizon:
    def __init__(self, seconds=10.0):
        self.seconds = seconds

    def __enter__(self):
        self.old = signal.signal(signal.SIGALRM, _alarm)
        signal.setitimer(signal.ITIMER_REAL, self.seconds)

    def __exit__(self, *a):
        signal.setitimer(signal.ITIMER_REAL, 0)
        signal.signal(signal.SIGALRM, self.old)
        return False


# --------------------------------------------------------------------------
# results
# --------------------------------------------------------------------------
class Result:
    """What one shard covered.  All counters are measured."""

    __slots__ = (
        "evaluations", "nontrivial", "states", "transitions", "traces",
        "outcomes", "samples", "violations", "skipped", "capped", "extra",
    )

    def __init__(self):
        self.evaluations = 0   # complete cases executed
        self.nontrivial = 0    # distinct cases that are non-trivial by RULE
        self.states = 0        # distinct canonical inputs / joint states
        self.transitions = 0   # real API operations executed
        self.traces = 0        # executions compared with the reference model
        self.outcomes = set()  # observable outcomes (vacuity detector)
        self.samples = []      # a few literal cases
        self.violations = []   # case dicts
        self.skipped = {}      # reason -> count (cases outside the domain)
        self.capped = None     # str if a cap was hit
        self.extra = {}        # free-form additive counters

    def outcome(self, o):
        if len(self.outcomes) < 4096:
            self.outcomes.add(o)

    def sample(self, s, limit=2):
        if len(self.samples) < limit:
            self.samples.append(s)

    def skip(self, reason):
        self.skipped[reason] = self.skipped.get(reason, 0) + 1

    def count(self, key, n=1):
        self.extra[key] = self.extra.get(key, 0) + n

    def violation(self, check, program, observed, allowed, explanation,
                  fingerprint):
        if len(self.violations) < MAX_VIOLATIONS:
            self.violations.append({
                "check": check, "program": program, "observed": observed,
                "allowed": allowed, "explanation": explanation,
                "fingerprint": fingerprint,
            })

    @property
    def full(self):
        return len(self.violations) >= MAX_VIOLATIONS

    def merge(self, o):
        self.evaluations += o.evaluations
        self.nontrivial += o.nontrivial
        self.states += o.states
        self.transitions += o.transitions
        self.traces += o.traces
        for x in o.outcomes:
            self.outcome(x)
        for s in o.samples:
            self.sample(s, 4)
        self.violations.extend(o.violations)
        for k, v in o.skipped.items():
            self.skipped[k] = self.skipped.get(k, 0) + v
        for k, v in o.extra.items():
            self.extra[k] = self.extra.get(k, 0) + v
        if o.capped and not self.capped:
            self.capped = o.capped


def jsonable(x):
    import numpy as np

    if isinstance(x, dict):
        return {str(k): jsonable(v) for k, v in x.items()}
    if isinstance(x, (list, tuple, set, frozenset)):
        return [jsonable(v) for v in (sorted(x, key=repr) if isinstance(x, (set, frozenset)) else x)]
    if isinstance(x, np.ndarray):
        return jsonable(x.tolist())
    if isinstance(x, (np.integer,)):
        return int(x)
    if isinstance(x, (np.floating,)):
        return jsonable(float(x))
    if isinstance(x, (np.bool_,)):
        return bool(x)
    if isinstance(x, float):
        if x != x:
            return "nan"
        if x in (float("inf"), float("-inf")):
            return "inf" if x > 0 else "-inf"
        return x
    if isinstance(x, (int, str, bool)) or x is None:
        return x
    return repr(x)


# --------------------------------------------------------------------------
# known findings
# --------------------------------------------------------------------------
def load_findings():
    path = os.path.join(VERIF, "known_findings.json")
    if not os.path.exists(path):
        return []
    with open(path) as f:
        return json.load(f)["findings"]


def known_entry(findings, pid, fingerprint):
    for e in findings:
        if e.get("status") == "known" and e.get("property") == pid \
                and e.get("fingerprint") == fingerprint:
            return e
    return None


# --------------------------------------------------------------------------
# worker side
# --------------------------------------------------------------------------
_MOD = None
_SEED = 0


def _work(shard):
    try:
        return _MOD.run(shard, _SEED)
    except BaseException:  # a crash of the harness itself, not of the library
        r = Result()
        r.capped = "HARNESS-ERROR in shard %r:\n%s" % (shard, traceback.format_exc())
        return r


def _load(pid):
    return importlib.import_module("mc.props." + pid.lower())


def write_replay(pid, case):
    blob = json.dumps(jsonable(case), sort_keys=True, indent=1)
    h = hashlib.sha1(blob.encode()).hexdigest()[:16]
    d = os.path.join(VERIF, "replays", pid)
    os.makedirs(d, exist_ok=True)
    path = os.path.join(d, h + ".json")
    with open(path, "w") as f:
        f.write(blob + "\n")
    return path


def do_replay(mod, case):
    """Re-execute one recorded case, no explorer.  Returns violation or None."""
    with horizon(60.0):
        try:
            return mod.replay(case)
        except Horizon as h:
            return {"check": case.get("check"), "program": case.get("program"),
                    "observed": str(h), "allowed": "termination",
                    "explanation": str(h),
                    "fingerprint": case.get("fingerprint")}
        except Exception as ex:
            # the recorded case makes the code under test (or the replay of it) raise: the case is
            # still a reproducible failure of the recorded program, reported with what was raised
            import traceback
            where = traceback.extract_tb(ex.__traceback__)[-1]
            return {"check": case.get("check"), "program": case.get("program"),
                    "observed": "%s; on replay: %r raised at %s:%s" % (case.get("observed"), ex, where.filename,
                                                                         where.lineno),
                    "allowed": case.get("allowed"),
                    "explanation": "%s (replay raised %r)" % (case.get("explanation"), ex),
                    "fingerprint": case.get("fingerprint")}


def main(argv=None):
    argv = list(sys.argv[1:] if argv is None else argv)
    if not argv:
        print("usage: check <Cxx> [--tier quick|thorough] [--replay <file>]")
        return 2
    pid = argv.pop(0).upper()
    tier = os.environ.get("VERIF_TIER", "quick")
    replay_path = None
    nproc = int(os.environ.get("VERIF_JOBS", "0")) or min(16, os.cpu_count() or 1)
    while argv:
        a = argv.pop(0)
        if a == "--tier":
            tier = argv.pop(0)
        elif a == "--replay":
            replay_path = argv.pop(0)
        elif a == "--jobs":
            nproc = int(argv.pop(0))
        elif a == "--sub-opt":
            os.environ["VERIF_SUB_OPT"] = "1"
        else:
            print("unknown argument", a)
            return 2
    if tier not in ("quick", "thorough"):
        print("unknown tier", tier)
        return 2
    seed = int(os.environ.get("VERIF_SEED", "0") or 0)

    t0 = time.time()
    import tempfile
    import shutil
    scratch = tempfile.mkdtemp(prefix="verif-run-", dir="/var/tmp")
    os.environ["VERIF_SCRATCH"] = scratch
    try:
        return _main(pid, tier, replay_path, nproc, seed, t0)
    finally:
        shutil.rmtree(scratch, ignore_errors=True)


def _main(pid, tier, replay_path, nproc, seed, t0):
    repo = bind_repo()
    global _MOD, _SEED
    mod = _MOD = _load(pid)
    _SEED = seed
    findings = load_findings()

    # ---- single replay ----------------------------------------------------
    if replay_path:
        with open(replay_path) as f:
            case = json.load(f)
        if case.get("python_flags") == "-O" and not sys.flags.optimize:
            # the case was found under the optimising interpreter: replay it the same way
            import subprocess
            r = subprocess.run([sys.executable, "-O", "-B", "-m", "mc.runner", pid, "--replay", replay_path],
                               cwd=VERIF)
            return r.returncode
        v = do_replay(mod, case)
        if v is None:
            print("replay: property %s holds on this case" % pid)
            return 0
        print(json.dumps(jsonable(v), indent=1))
        k = known_entry(findings, pid, v.get("fingerprint"))
        if k:
            print("KNOWN-FINDING: property=%s %s" % (pid, k["what"]))
            return 0
        print("VIOLATION property=%s replay=%s" % (pid, os.path.abspath(replay_path)))
        return 1

    # ---- warm-up in the parent (JIT etc.), then fork the workers ---------
    if hasattr(mod, "warm"):
        mod.warm()
    shards = mod.plan(tier, seed)
    sub_opt = os.environ.get("VERIF_SUB_OPT") == "1"
    if sub_opt:
        # a slice of the plan, run by a child interpreter started with -O (asserts stripped)
        k = getattr(mod, "OPT_SHARDS", 6)
        shards = shards[::max(1, len(shards) // k)][:k] if k else []
    only = os.environ.get("VERIF_ONLY_SHARDS")  # development aid: restrict to shards whose repr contains this
    if only:
        shards = [s for s in shards if only in repr(s)]
    budget = float(os.environ.get("VERIF_BUDGET_S", "0")) or \
        (280.0 if tier == "quick" else 6 * 3600.0)
    total = Result()
    n_shards = len(shards)
    done = 0
    harness_errors = []

    # committed regressions of confirmed defects are replayed first
    reg_dir = os.path.join(VERIF, "regressions", pid)
    reg_cases = []
    if os.path.isdir(reg_dir):
        for fn in sorted(os.listdir(reg_dir)):
            if fn.endswith(".json"):
                with open(os.path.join(reg_dir, fn)) as f:
                    reg_cases.append((os.path.join(reg_dir, fn), json.load(f)))
    reg_viol = []
    for path, case in reg_cases:
        v = do_replay(mod, case)
        total.count("regressions_replayed")
        if v is not None:
            v["_replay_path"] = path
            reg_viol.append(v)

    # the same code under `python -O` (configuration dimension): a slice of the plan is run by a
    # child interpreter with asserts stripped, concurrently with the main exploration
    opt_proc = None
    if not sub_opt and not sys.flags.optimize and getattr(mod, "OPT_SHARDS", 6) and not only:
        import subprocess
        env = dict(os.environ)
        env["VERIF_SUB_OPT"] = "1"
        env["VERIF_BUDGET_S"] = "15" if tier == "quick" else "300"
        opt_proc = subprocess.Popen([sys.executable, "-O", "-B", "-m", "mc.runner", pid, "--tier", tier,
                                     "--jobs", "3"], cwd=VERIF, env=env, stdout=subprocess.PIPE,
                                    stderr=subprocess.PIPE, text=True, start_new_session=True)
    if nproc > 1 and n_shards > 1:
        ctx = mp.get_context("fork")
        pool = ctx.Pool(min(nproc, n_shards))
        try:
            it = pool.imap_unordered(_work, shards, chunksize=1)
            grace = 60.0 if tier == "quick" else 1800.0
            while True:
                try:
                    r = it.next(timeout=5.0)
                except StopIteration:
                    break
                except mp.TimeoutError:
                    # no shard has returned for a while: the wall-clock budget also bounds a shard whose
                    # exploration does not come to an end (it is abandoned and reported as not covered)
                    if time.time() - t0 > budget + grace:
                        total.capped = "time budget %.0fs (+%.0fs) hit while shards were still running; " \
                                       "%d/%d shards completed" % (budget, grace, done, n_shards)
                        break
                    continue
                done += 1
                if r.capped and r.capped.startswith("HARNESS-ERROR"):
                    harness_errors.append(r.capped)
                    r.capped = None
                total.merge(r)
                if len(total.violations) >= MAX_VIOLATIONS:
                    total.capped = total.capped or \
                        "stopped after %d violations (%d/%d shards)" % (
                            len(total.violations), done, n_shards)
                    break
                if time.time() - t0 > budget:
                    total.capped = "time budget %.0fs hit after %d/%d shards" % (
                        budget, done, n_shards)
                    break
        finally:
            pool.terminate()
            pool.join()
    else:
        for s in shards:
            r = _work(s)
            done += 1
            if r.capped and r.capped.startswith("HARNESS-ERROR"):
                harness_errors.append(r.capped)
                r.capped = None
            total.merge(r)
            if len(total.violations) >= MAX_VIOLATIONS:
                total.capped = total.capped or "stopped after %d violations (%d/%d shards)" % (
                    len(total.violations), done, n_shards)
                break
            if time.time() - t0 > budget:
                total.capped = "time budget %.0fs hit after %d/%d shards" % (
                    budget, done, n_shards)
                break

    # ---- collect the `python -O` sub-run (started before the main exploration) ----
    opt_info = None
    if opt_proc is not None:
        import subprocess as _sp
        try:
            out, err = opt_proc.communicate(timeout=240 if tier == "quick" else 3600)
            line = [l for l in out.splitlines() if l.startswith("SUBRESULT ")]
            if line:
                opt_info = json.loads(line[-1][len("SUBRESULT "):])
            else:
                harness_errors.append("python -O sub-run produced no result: %s" % (out + err)[-800:])
        except _sp.TimeoutExpired:
            # the slice run under `python -O` did not come back in time (a busy machine, or code under
            # test that makes an exploration very long): it is abandoned and reported as not covered
            try:
                import signal as _sig
                os.killpg(opt_proc.pid, _sig.SIGKILL)      # the child and its worker processes
            except Exception:
                opt_proc.kill()
            try:
                opt_proc.communicate(timeout=10)
            except Exception:
                pass
            total.count("python_O_subrun_abandoned")
        except Exception as ex:
            harness_errors.append("python -O sub-run failed: %r" % (ex,))
        if opt_info:
            total.evaluations += opt_info["evaluations"]
            total.transitions += opt_info["transitions"]
            total.traces += opt_info["traces"]
            total.count("python_O_shards", opt_info["shards"])
            total.count("python_O_evaluations", opt_info["evaluations"])

    # ---- adjudicate violations -------------------------------------------
    printed_known = set()
    n_viol = 0
    lines = []
    seen_fp = {}
    for v in reg_viol + total.violations[:MAX_VIOLATIONS * 2]:
        fp = v.get("fingerprint")
        k = known_entry(findings, pid, fp)
        if "_replay_path" in v:
            path = v.pop("_replay_path")
            confirmed = v
        else:
            # confirm by re-executing the recorded case without the explorer
            confirmed = do_replay(mod, json.loads(json.dumps(jsonable(v))))
            if confirmed is None:
                harness_errors.append(
                    "violation did not reproduce on replay (nondeterminism "
                    "in the harness?): %s" % json.dumps(jsonable(v))[:2000])
                continue
            path = None
        if k:
            if fp not in printed_known:
                printed_known.add(fp)
                lines.append("KNOWN-FINDING: property=%s %s" % (pid, k["what"]))
            continue
        if fp in seen_fp and seen_fp[fp] >= 2:
            continue  # at most two replay files per fingerprint
        seen_fp[fp] = seen_fp.get(fp, 0) + 1
        if path is None:
            if sys.flags.optimize:
                v["python_flags"] = "-O"
            path = write_replay(pid, v)
        n_viol += 1
        lines.append("# %s: %s" % (v["check"], v["explanation"]))
        lines.append("VIOLATION property=%s replay=%s" % (pid, path))

    if opt_info:
        for l in opt_info["lines"]:
            lines.append(l)
            if l.startswith("VIOLATION"):
                n_viol += 1
        if opt_info.get("harness_errors"):
            harness_errors.extend(opt_info["harness_errors"])
    if sub_opt:
        print("SUBRESULT " + json.dumps({
            "evaluations": total.evaluations, "transitions": total.transitions, "traces": total.traces,
            "shards": done, "lines": [l.replace("# ", "# [python -O] ", 1) if l.startswith("# ") else l
                                      for l in lines], "harness_errors": harness_errors[:3]}))
        return 1 if n_viol else 0
    wall = time.time() - t0
    exhaustive = total.capped is None and not harness_errors and not only
    if only:
        total.capped = total.capped or "restricted to shards matching %r (development run)" % only
    bounds = mod.bounds(tier) if hasattr(mod, "bounds") else {}
    evidence = {
        "property_id": pid,
        "tier": tier,
        "seed": seed,
        "level": "model_checking",
        "coverage": {
            "states": total.states,
            "transitions": total.transitions,
            "traces_validated_against_impl": total.traces,
            "evaluations": total.evaluations,
            "distinct_nontrivial": total.nontrivial,
            "rule": mod.RULE,
            "distinct_outcomes": len(total.outcomes),
            "samples": jsonable(total.samples) or ["(none)"],
            "exhaustive": exhaustive,
            "cap_hit": total.capped,
            "shards": {"planned": n_shards, "completed": done},
            "skipped_outside_domain": total.skipped,
            "bounds": bounds,
            "counters": total.extra,
            "known_findings_reproduced": sorted(printed_known),
            "repo": repo,
        },
        "assumptions": list(mod.ASSUMPTIONS),
        "wall_s": round(wall, 3),
        "violations": n_viol,
    }
    os.makedirs(os.path.join(VERIF, "evidence"), exist_ok=True)
    with open(os.path.join(VERIF, "evidence", pid + ".json"), "w") as f:
        json.dump(jsonable(evidence), f, indent=1, sort_keys=True)
        f.write("\n")

    for ln in lines:
        print(ln)
    cov = evidence["coverage"]
    print("%s %s seed=%d: states=%d transitions=%d traces=%d evaluations=%d "
          "nontrivial=%d outcomes=%d exhaustive=%s violations=%d wall=%.1fs%s" % (
              pid, tier, seed, cov["states"], cov["transitions"],
              cov["traces_validated_against_impl"], cov["evaluations"],
              cov["distinct_nontrivial"], cov["distinct_outcomes"],
              exhaustive, n_viol, wall,
              (" cap=%s" % total.capped) if total.capped else ""))
    if harness_errors:
        for h in harness_errors[:3]:
            print("HARNESS-ERROR:", h)
        return 2 if n_viol == 0 else 1
    return 1 if n_viol else 0


if __name__ == "__main__":
    sys.exit(main())
