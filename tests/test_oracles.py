"""Self-tests of the reference models against even more naive formulations."""
import itertools
import json
import os
import random
import sys

HERE = os.path.dirname(os.path.abspath(__file__))
sys.path.insert(0, os.path.dirname(HERE))

from mc.oracles import forest as F  # noqa: E402
from mc.oracles import density as DN  # noqa: E402
from mc.oracles import metrics_ref, axioms  # noqa: E402
from mc import enum as E  # noqa: E402


def all_simple_path_minimax(W, s, t):
    n = len(W)
    best = None
    others = [v for v in range(n) if v not in (s, t)]
    for L in range(len(others) + 1):
        for mid in itertools.permutations(others, L):
            path = (s,) + mid + (t,)
            v = max(W[a][b] for a, b in zip(path, path[1:]))
            if best is None or v < best:
                best = v
    return best


def test_minimax_closure_vs_all_simple_paths():
    rnd = random.Random(1)
    for n in (2, 3, 4, 5):
        for _ in range(40):
            W = [[0.0] * n for _ in range(n)]
            for a, b in itertools.combinations(range(n), 2):
                W[a][b] = W[b][a] = float(rnd.randint(0, 4))
            M = F.minimax_closure(W)
            for s in range(n):
                for t in range(n):
                    if s != t:
                        assert M[s][t] == all_simple_path_minimax(W, s, t)


def kruskal_trees(n, w):
    """All trees Kruskal can return under every tie order (all permutations of
    the edges, stably sorted by weight)."""
    edges = list(itertools.combinations(range(n), 2))
    out = set()
    for perm in itertools.permutations(range(len(edges))):
        order = sorted(perm, key=lambda e: w[e])
        parent = list(range(n))

        def find(x):
            while parent[x] != x:
                x = parent[x]
            return x

        tree = []
        for e in order:
            a, b = edges[e]
            ra, rb = find(a), find(b)
            if ra != rb:
                parent[ra] = rb
                tree.append(e)
        out.add(tuple(sorted(tree)))
    return out


def test_mst_family_vs_kruskal_all_tie_orders():
    for n, m in ((3, 3), (4, 2), (4, 3)):
        trees = F.spanning_trees(n)
        assert len(trees) == n ** (n - 2)
        step = 1 if E.n_graphs(n, m) <= 64 else 7
        for gi in range(0, E.n_graphs(n, m), step):
            w = [float(r) for r in E.graph_ranks(n, m, gi)]
            got = {tuple(sorted(trees[i])) for i in F.mst_indices(n, w)}
            assert got == kruskal_trees(n, w), (n, w)


def test_weak_orders_count():
    assert len(E.weak_orders(3)) == 13
    assert len(E.weak_orders(6)) == 4683
    assert [len(E.labelings(n)) for n in (3, 4, 5, 6)] == [4, 14, 51, 202]


def test_knn_reference():
    D = [[0, 1, 1, 5], [1, 0, 2, 4], [1, 2, 0, 3], [5, 4, 3, 0]]
    near, maxd, bound = DN.knn_reference(D, 2)
    assert near == [[1, 1], [1, 2], [1, 2], [3, 4]] and maxd == [3, 4] and bound == 5 - 1
    near, maxd, bound = DN.knn_reference(D, 5)
    assert [len(x) for x in near] == [3, 3, 3, 3] and maxd[3:] == [0.0, 0.0] and bound == 5
    assert DN.knn_reference([[0, 1e-6], [1e-6, 0]], 1)[2] == 1


def test_metric_reference_matches_the_47_pinned_values():
    pinned = json.load(open(os.path.join(HERE, "pinned_metric_values.json")))
    assert set(pinned) == set(axioms.NAMES) == set(metrics_ref.REF)
    for name, p in pinned.items():
        ref = metrics_ref.REF[name](p["x"], p["y"])
        # five of the pinned values are rounded to 5 decimals in the repository's tests
        tol = 5.1e-6 if round(p["value"], 5) == p["value"] and len(repr(p["value"])) <= 8 else 1e-9 * max(1.0, abs(p["value"]))
        assert abs(ref - p["value"]) <= tol, (name, ref, p["value"])


def test_acceptable_labels():
    lab, best, arg = F.acceptable_labels([0.0, 2.0, 1.0], [0, 1, 1], [3.0, 1.0, 2.0])
    assert best == 2.0 and arg == [1, 2] and lab == {1}
