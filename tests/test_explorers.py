"""Self-tests of the explorers: they must find a seeded bug in a toy, and
enumerate exactly the space they claim."""
import os
import sys

HERE = os.path.dirname(os.path.abspath(__file__))
sys.path.insert(0, os.path.dirname(HERE))
from mc.runner import bind_repo  # noqa: E402

bind_repo()
from mc.explore import explore  # noqa: E402
from mc.props import c05  # noqa: E402


def test_explorer_B_finds_a_broken_sift_down_and_is_silent_otherwise():
    from opfython.core.heap import Heap
    ok = c05.run(("min", 3, 3), 0)
    assert not ok.violations and ok.states > 100 and ok.transitions > ok.states
    orig = Heap.go_down

    def broken(self, i):  # compares the right child with i instead of the better child
        left, right, j = self.left_son(i), self.right_son(i), i
        if left <= self.last and self.cost[self.p[left]] < self.cost[self.p[i]]:
            j = left
        if right <= self.last and self.cost[self.p[right]] < self.cost[self.p[i]]:
            j = right
        if j != i:
            self.p[j], self.p[i] = self.p[i], self.p[j]
            self.pos[self.p[i]] = i
            self.pos[self.p[j]] = j
            self.go_down(j)

    Heap.go_down = broken
    try:
        bad = c05.run(("min", 4, 3), 0)
    finally:
        Heap.go_down = orig
    assert bad.violations
    # the recorded case replays as a violation on the broken heap and not on the real one
    case = bad.violations[0]
    assert c05.replay(case) is None
    Heap.go_down = broken
    try:
        assert c05.replay(case) is not None
    finally:
        Heap.go_down = orig


def test_explorer_D_enumerates_every_answer_sequence_once():
    seen = []

    def execute(ch):
        a = ch.choose(3)
        b = ch.choose(2) if a != 1 else None
        c = ch.choose(2)
        seen.append((a, b, c))
        return ("bad", "x") if (a, b, c) == (2, 1, 1) else None

    out = explore(execute)
    assert sorted(seen) == sorted({(a, b, c) for a in range(3) for b in ((0, 1) if a != 1 else (None,))
                                   for c in range(2)})
    assert len(seen) == len(set(seen)) == 10 and out["complete"]
    assert [v[0] for v in out["violations"]] == [[2, 1, 1]]
    out2 = explore(execute, deviation_bound=1)
    assert not out2["complete"] and out2["pruned_by_deviation_bound"] > 0
