"""Explorer-free regression tests: every replay file of a defect confirmed on
the original tree (regressions/<id>/*.json) is re-executed against $VERIF_REPO
(default /repo).  They fail on the original snapshot and pass once the
corresponding fix: commit is in."""
import glob
import importlib
import json
import os
import sys

import pytest

HERE = os.path.dirname(os.path.abspath(__file__))
VERIF = os.path.dirname(HERE)
sys.path.insert(0, VERIF)
from mc.runner import bind_repo, do_replay  # noqa: E402

bind_repo()
FILES = sorted(glob.glob(os.path.join(VERIF, "regressions", "C*", "*.json")))


@pytest.mark.parametrize("path", FILES, ids=[os.path.relpath(f, VERIF) for f in FILES])
def test_regression(path):
    pid = os.path.basename(os.path.dirname(path))
    mod = importlib.import_module("mc.props." + pid.lower())
    with open(path) as f:
        case = json.load(f)
    v = do_replay(mod, case)
    assert v is None, v["explanation"]
